#!/bin/sh
# Fixture for the SOCKS external auth command: logs how it was invoked and decides from a table the harness edits.
#   argv: <tag> <user> <pass>      env: AUTH_DIR
# log line: <epoch.ns>\t<argc>\t<arg1 hex>\t<arg2 hex>\t<arg3 hex>
hexs() { printf '%s' "$1" | od -An -v -tx1 | tr -d ' \n'; }
printf '%s\t%s\t%s\t%s\t%s\n' "$(date +%s.%N)" "$#" "$(hexs "$1")" "$(hexs "$2")" "$(hexs "$3")" >> "$AUTH_DIR/log"
[ "$1" = "tag" ] || exit 2
# a helper that dies from a signal has not accepted anybody
[ "$2" = "crashme" ] && kill -ABRT $$
grep -qxF "$(hexs "$2"):$(hexs "$3")" "$AUTH_DIR/table"
