#!/bin/sh
# Fixture for C14: an external auth command that takes 8 s for the user "slow" and answers at once for everybody else.
#   argv: <user> <pass>   accepted iff the password is "pw"
[ "$1" = "slow" ] && sleep 8
[ "$2" = "pw" ]
