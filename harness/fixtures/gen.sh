#!/bin/sh
# Generates the TLS fixtures once (committed). 100-year validity; RSA-2048; SAN DNS:localhost
set -e
mk_ca() { openssl req -x509 -newkey rsa:2048 -nodes -keyout $1.key -out $1.crt -days 36500 -subj "/CN=$2" -addext "basicConstraints=critical,CA:TRUE" -addext "keyUsage=critical,keyCertSign,cRLSign" 2>/dev/null; }
mk_leaf() { # name ca cn san
  openssl req -newkey rsa:2048 -nodes -keyout $1.key -out $1.csr -subj "/CN=$3" 2>/dev/null
  printf "basicConstraints=CA:FALSE\nkeyUsage=digitalSignature,keyEncipherment\nextendedKeyUsage=serverAuth,clientAuth\nsubjectAltName=$4\n" > $1.ext
  openssl x509 -req -in $1.csr -CA $2.crt -CAkey $2.key -CAcreateserial -out $1.crt -days 36500 -extfile $1.ext 2>/dev/null
  rm -f $1.csr $1.ext
}
mk_ca ca "verif test CA"
mk_ca foreign-ca "verif foreign CA"
mk_leaf server ca localhost DNS:localhost
mk_leaf server-foreign foreign-ca localhost DNS:localhost
mk_leaf server-wrongname ca other.example DNS:other.example
mk_leaf client ca client DNS:client
mk_leaf client-foreign foreign-ca client DNS:client
rm -f *.srl
printf "not a pem file\n" > garbage.pem
: > empty.pem
