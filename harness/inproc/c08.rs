// C08 — rule-language type soundness.
// For every generated expression: load it exactly as the loaders do (parse -> type_of under the
// request environment); if the checker accepts it with type T, evaluate it under many request
// environments and require: no panic, no type error, value of shape T, and (where the harness's
// reference interpreter defines it) the documented value. Ill-typed expressions must be rejected
// without a panic.
use super::util::*;
use crate::context::{ContextProps, Feature, TargetAddress};
use crate::rules::script_ext::create_context;
use milu::parser::parse;
use milu::script::{Evaluatable, ScriptContextRef, Type, Value};
use std::convert::TryInto;
use std::sync::Arc;

#[derive(Clone, Debug, PartialEq, Eq, Hash)]
enum Ty {
    I,
    B,
    S,
    A(Box<Ty>),
    T(Vec<Ty>),
    Any,
}

#[derive(Clone, Debug, PartialEq, Eq, Hash)]
enum V {
    I(i64),
    B(bool),
    S(String),
    A(Vec<V>),
    T(Vec<V>),
    U, // element of a lazily evaluated array/tuple whose own evaluation has no defined value (error / unknown)
}

fn has_u(v: &V) -> bool {
    match v {
        V::U => true,
        V::A(x) | V::T(x) => x.iter().any(has_u),
        _ => false,
    }
}

#[derive(Clone, Debug, Hash)]
enum X {
    Int(u64), // non-negative literal
    Bool(bool),
    Str(String),
    Arr(Vec<X>),
    Tup(Vec<X>),
    Un(&'static str, Box<X>),
    Bin(&'static str, Box<X>, Box<X>),
    If(Box<X>, Box<X>, Box<X>, bool), // bool: ternary spelling
    Let(Vec<(String, X)>, Box<X>),
    Var(String),
    Index(Box<X>, Box<X>),
    TupAcc(Box<X>, u64),
    Call(&'static str, Vec<X>),
    Tpl(Vec<X>), // template: literal parts and ${} parts alternate; every part is an expression
    Req(&'static str),
}

enum R {
    Val(V),
    Dyn(&'static str), // inherently dynamic error
    Ovf,               // integer overflow: a wrapped value or an error are both accepted
    Unk,               // reference does not define the value (only the shape is checked)
}

#[derive(Clone)]
struct Env {
    listener: String,
    source: std::net::SocketAddr,
    target: TargetAddress,
    feature: Feature,
    connector: Option<String>,
}

impl Env {
    fn props(&self) -> Arc<ContextProps> {
        Arc::new(ContextProps {
            listener: self.listener.clone(),
            source: self.source,
            target: self.target.clone(),
            request_feature: self.feature,
            connector: self.connector.clone(),
            ..Default::default()
        })
    }
    fn req(&self, path: &str) -> V {
        match path {
            "request.listener" => V::S(self.listener.clone()),
            "request.connector" => V::S(self.connector.clone().unwrap_or_default()),
            "request.feature" => V::S(format!("{:?}", self.feature)),
            "request.target" => V::S(self.target.to_string()),
            "request.source" => V::S(self.source.to_string()),
            "request.target.host" => V::S(self.target.host()),
            "request.target.port" => V::I(self.target.port() as i64),
            "request.target.type" => V::S(self.target.r#type().to_string()),
            "request.source.host" => V::S(self.source.ip().to_string()),
            "request.source.port" => V::I(self.source.port() as i64),
            "request.source.type" => V::S(if self.source.is_ipv4() { "ipv4" } else { "ipv6" }.into()),
            _ => unreachable!(),
        }
    }
}

static REQ_S: &[&str] = &[
    "request.listener",
    "request.connector",
    "request.feature",
    "request.target",
    "request.source",
    "request.target.host",
    "request.target.type",
    "request.source.host",
    "request.source.type",
];
static REQ_I: &[&str] = &["request.target.port", "request.source.port"];

static INT_OPS: &[&str] = &["+", "-", "*", "/", "%", "&", "|", "^", "<<", ">>", ">>>"];
static CMP_OPS: &[&str] = &["<", "<=", ">", ">=", "==", "!="];
static BOOL_OPS: &[&str] = &["&&", "||", "^^"];

fn esc(s: &str) -> String {
    let mut o = String::from("\"");
    for c in s.chars() {
        match c {
            '"' => o.push_str("\\\""),
            '\\' => o.push_str("\\\\"),
            '\n' => o.push_str("\\n"),
            c => o.push(c),
        }
    }
    o.push('"');
    o
}

impl X {
    fn text(&self) -> String {
        match self {
            X::Int(i) => i.to_string(),
            X::Bool(b) => b.to_string(),
            X::Str(s) => esc(s),
            X::Arr(v) => format!("[{}]", v.iter().map(|x| x.text()).collect::<Vec<_>>().join(", ")),
            X::Tup(v) => format!("({})", v.iter().map(|x| x.text() + ",").collect::<Vec<_>>().join(" ")),
            X::Un(op, a) => format!("({} {})", op, a.text()),
            X::Bin(op, a, b) => format!("({} {} {})", a.text(), op, b.text()),
            X::If(c, y, n, tern) => {
                if *tern {
                    format!("(({}) ? {} : {})", c.text(), y.text(), n.text())
                } else {
                    format!("(if {} then {} else {})", c.text(), y.text(), n.text())
                }
            }
            X::Let(v, b) => format!(
                "(let {} in {})",
                v.iter().map(|(n, x)| format!("{} = {}", n, x.text())).collect::<Vec<_>>().join("; "),
                b.text()
            ),
            X::Var(n) => n.clone(),
            X::Index(a, i) => format!("{}[{}]", a.ptext(), i.text()),
            X::TupAcc(a, k) => format!("{}.{}", a.ptext(), k),
            X::Call(f, args) => format!("{}({})", f, args.iter().map(|x| x.text()).collect::<Vec<_>>().join(", ")),
            X::Tpl(parts) => {
                let mut s = String::from("`");
                for p in parts {
                    match p {
                        X::Str(l) if !l.contains(['`', '$', '\\', '"']) => s.push_str(l),
                        other => s.push_str(&format!("${{{}}}", other.text())),
                    }
                }
                s.push('`');
                s
            }
            X::Req(p) => p.to_string(),
        }
    }
    fn ptext(&self) -> String {
        match self {
            X::Var(_) | X::Req(_) | X::Arr(_) | X::Call(..) | X::Index(..) | X::TupAcc(..) | X::Str(_) => self.text(),
            X::Tup(_) => self.text(),
            _ => format!("({})", self.text()),
        }
    }
}

// ---------------------------------------------------------------- reference type checker
type Scope = Vec<(String, Option<Ty>)>;

fn ty_eq(a: &Ty, b: &Ty) -> bool {
    match (a, b) {
        (Ty::Any, _) | (_, Ty::Any) => true,
        (Ty::A(x), Ty::A(y)) => ty_eq(x, y),
        (Ty::T(x), Ty::T(y)) => x.len() == y.len() && x.iter().zip(y).all(|(p, q)| ty_eq(p, q)),
        _ => a == b,
    }
}

fn ref_type(x: &X, sc: &Scope) -> Option<Ty> {
    Some(match x {
        X::Int(_) => Ty::I,
        X::Bool(_) => Ty::B,
        X::Str(_) => Ty::S,
        X::Arr(v) => {
            if v.is_empty() {
                Ty::A(Box::new(Ty::Any))
            } else {
                let t0 = ref_type(&v[0], sc)?;
                for e in v.iter().skip(1) {
                    if !ty_eq(&ref_type(e, sc)?, &t0) {
                        return None;
                    }
                }
                Ty::A(Box::new(t0))
            }
        }
        X::Tup(v) => Ty::T(v.iter().map(|e| ref_type(e, sc)).collect::<Option<Vec<_>>>()?),
        X::Un(op, a) => {
            let t = ref_type(a, sc)?;
            match *op {
                "!" if t == Ty::B => Ty::B,
                "~" | "-" if t == Ty::I => Ty::I,
                _ => return None,
            }
        }
        X::Bin(op, a, b) => {
            let (ta, tb) = (ref_type(a, sc)?, ref_type(b, sc)?);
            if INT_OPS.contains(op) {
                if ta == Ty::I && tb == Ty::I { Ty::I } else { return None }
            } else if CMP_OPS.contains(op) {
                if ta == tb && matches!(ta, Ty::I | Ty::S | Ty::B) { Ty::B } else { return None }
            } else if BOOL_OPS.contains(op) {
                if ta == Ty::B && tb == Ty::B { Ty::B } else { return None }
            } else if *op == "=~" || *op == "!~" {
                if ta == Ty::S && tb == Ty::S { Ty::B } else { return None }
            } else if *op == "_:" {
                match tb {
                    Ty::A(e) if ty_eq(&e, &ta) && !matches!(ta, Ty::Any) => Ty::B,
                    _ => return None,
                }
            } else {
                return None;
            }
        }
        X::If(c, y, n, _) => {
            if ref_type(c, sc)? != Ty::B {
                return None;
            }
            let (ty, tn) = (ref_type(y, sc)?, ref_type(n, sc)?);
            if ty != tn { return None }
            ty
        }
        X::Let(vars, body) => {
            let mut inner = sc.clone();
            for (n, v) in vars {
                inner.push((n.clone(), ref_type(v, sc)));
            }
            // a binding that is ill-typed only matters if used; keep it simple: require all well typed
            for (_, t) in inner.iter().skip(sc.len()) {
                t.as_ref()?;
            }
            ref_type(body, &inner)?
        }
        X::Var(n) => sc.iter().rev().find(|(k, _)| k == n)?.1.clone()?,
        X::Index(a, i) => {
            if ref_type(i, sc)? != Ty::I {
                return None;
            }
            match ref_type(a, sc)? {
                Ty::A(e) => *e,
                _ => return None,
            }
        }
        X::TupAcc(a, k) => match ref_type(a, sc)? {
            Ty::T(v) => v.get(*k as usize)?.clone(),
            _ => return None,
        },
        X::Call(f, args) => {
            let ts = args.iter().map(|e| ref_type(e, sc)).collect::<Option<Vec<_>>>()?;
            match (*f, ts.as_slice()) {
                ("to_string", [_]) => Ty::S,
                ("to_integer", [Ty::S]) => Ty::I,
                ("split", [Ty::S, Ty::S]) => Ty::A(Box::new(Ty::S)),
                ("strcat", [Ty::A(e)]) if ty_eq(e, &Ty::S) => Ty::S,
                ("cidr_match", [Ty::S, Ty::S]) => Ty::B,
                _ => return None,
            }
        }
        X::Tpl(parts) => {
            for p in parts {
                if ref_type(p, sc)? != Ty::S {
                    return None;
                }
            }
            Ty::S
        }
        X::Req(p) => {
            if REQ_I.contains(p) { Ty::I } else { Ty::S }
        }
    })
}

// ---------------------------------------------------------------- reference interpreter (lazy where the language is)
type VScope<'a> = Vec<(String, &'a X, usize)>; // name, expr, scope length at definition

fn ref_eval(x: &X, env: &Env, sc: &VScope) -> R {
    macro_rules! val {
        ($e:expr) => {
            match ref_eval($e, env, sc) {
                R::Val(v) => v,
                other => return other,
            }
        };
    }
    match x {
        X::Int(i) => {
            if *i > i64::MAX as u64 { R::Unk } else { R::Val(V::I(*i as i64)) }
        }
        X::Bool(b) => R::Val(V::B(*b)),
        X::Str(s) => R::Val(V::S(s.clone())),
        // arrays and tuples are lazy in milu: an element is only evaluated when it is demanded
        X::Arr(v) => R::Val(V::A(v.iter().map(|e| match ref_eval(e, env, sc) { R::Val(x) => x, _ => V::U }).collect())),
        X::Tup(v) => R::Val(V::T(v.iter().map(|e| match ref_eval(e, env, sc) { R::Val(x) => x, _ => V::U }).collect())),
        X::Un(op, a) => match (*op, val!(a)) {
            ("!", V::B(b)) => R::Val(V::B(!b)),
            ("~", V::I(i)) => R::Val(V::I(!i)),
            ("-", V::I(i)) => i.checked_neg().map(|v| R::Val(V::I(v))).unwrap_or(R::Ovf),
            _ => R::Unk,
        },
        X::Bin(op, a, b) => {
            if *op == "&&" || *op == "||" {
                let l = match val!(a) { V::B(b) => b, _ => return R::Unk };
                if (*op == "&&" && !l) || (*op == "||" && l) {
                    return R::Val(V::B(l));
                }
                return match val!(b) { V::B(r) => R::Val(V::B(r)), _ => R::Unk };
            }
            let (l, r) = (val!(a), val!(b));
            match (l, r) {
                (V::I(l), V::I(r)) if INT_OPS.contains(op) => {
                    let v = match *op {
                        "+" => l.checked_add(r),
                        "-" => l.checked_sub(r),
                        "*" => l.checked_mul(r),
                        "/" => {
                            if r == 0 { return R::Dyn("division by zero") }
                            l.checked_div(r)
                        }
                        "%" => {
                            if r == 0 { return R::Dyn("division by zero") }
                            l.checked_rem(r)
                        }
                        "&" => Some(l & r),
                        "|" => Some(l | r),
                        "^" => Some(l ^ r),
                        "<<" => if (0..64).contains(&r) { Some(l << r) } else { None },
                        ">>" => if (0..64).contains(&r) { Some(l >> r) } else { None },
                        ">>>" => if (0..64).contains(&r) { Some(((l as u64) >> r) as i64) } else { None },
                        _ => unreachable!(),
                    };
                    v.map(|v| R::Val(V::I(v))).unwrap_or(R::Ovf)
                }
                (l, r) if CMP_OPS.contains(op) => {
                    let ord = match (&l, &r) {
                        (V::I(a), V::I(b)) => a.cmp(b),
                        (V::S(a), V::S(b)) => a.cmp(b),
                        (V::B(a), V::B(b)) => a.cmp(b),
                        _ => return R::Unk,
                    };
                    use std::cmp::Ordering::*;
                    R::Val(V::B(match *op {
                        "<" => ord == Less,
                        "<=" => ord != Greater,
                        ">" => ord == Greater,
                        ">=" => ord != Less,
                        "==" => ord == Equal,
                        "!=" => ord != Equal,
                        _ => unreachable!(),
                    }))
                }
                (V::B(l), V::B(r)) if *op == "^^" => R::Val(V::B(l ^ r)),
                (V::S(s), V::S(p)) if *op == "=~" || *op == "!~" => {
                    // only literal-safe patterns have a reference value: alnum = substring; ^alnum$ = equality
                    let m = if !p.is_empty() && p.chars().all(|c| c.is_ascii_alphanumeric()) {
                        s.contains(&p)
                    } else if p.len() >= 2 && p.starts_with('^') && p.ends_with('$') && p[1..p.len() - 1].chars().all(|c| c.is_ascii_alphanumeric()) {
                        s == p[1..p.len() - 1]
                    } else if p == "(" || p == "[" || p == "*" {
                        return R::Dyn("invalid regex");
                    } else {
                        return R::Unk;
                    };
                    R::Val(V::B(if *op == "=~" { m } else { !m }))
                }
                (l, V::A(v)) if *op == "_:" => {
                    if has_u(&l) {
                        return R::Unk;
                    }
                    for e in &v {
                        if has_u(e) {
                            return R::Unk;
                        }
                        if *e == l {
                            return R::Val(V::B(true));
                        }
                    }
                    R::Val(V::B(false))
                }
                _ => R::Unk,
            }
        }
        X::If(c, y, n, _) => match val!(c) {
            V::B(true) => ref_eval(y, env, sc),
            V::B(false) => ref_eval(n, env, sc),
            _ => R::Unk,
        },
        X::Let(vars, body) => {
            let mut inner = sc.clone();
            let base = sc.len();
            for (n, v) in vars {
                inner.push((n.clone(), v, base));
            }
            ref_eval(body, env, &inner)
        }
        X::Var(n) => match sc.iter().rev().find(|(k, _, _)| k == n) {
            Some((_, e, at)) => {
                let outer: VScope = sc[..*at].to_vec();
                ref_eval(e, env, &outer)
            }
            None => R::Unk,
        },
        X::Index(a, i) => {
            let idx = match val!(i) { V::I(i) => i, _ => return R::Unk };
            let arr = match val!(a) { V::A(v) => v, _ => return R::Unk };
            let n = arr.len() as i128;
            let k = if idx >= 0 { idx as i128 } else { n + idx as i128 };
            if k < 0 || k >= n {
                R::Dyn("index out of range")
            } else if has_u(&arr[k as usize]) {
                R::Unk
            } else {
                R::Val(arr[k as usize].clone())
            }
        }
        X::TupAcc(a, k) => match val!(a) {
            V::T(v) => v.get(*k as usize).cloned().filter(|e| !has_u(e)).map(R::Val).unwrap_or(R::Unk),
            _ => R::Unk,
        },
        X::Call(f, args) => {
            let mut vs = vec![];
            for e in args {
                vs.push(val!(e));
            }
            match (*f, vs.as_slice()) {
                ("to_string", [V::I(i)]) => R::Val(V::S(i.to_string())),
                ("to_string", [V::B(b)]) => R::Val(V::S(b.to_string())),
                ("to_string", [_]) => R::Unk,
                ("to_integer", [V::S(s)]) => {
                    if !s.is_empty() && s.len() < 18 && s.chars().all(|c| c.is_ascii_digit()) {
                        R::Val(V::I(s.parse().unwrap()))
                    } else if s.chars().any(|c| c.is_ascii_alphabetic() || c == ' ' || c == '.') || s.is_empty() {
                        R::Dyn("non-numeric string")
                    } else {
                        R::Unk
                    }
                }
                ("split", [V::S(s), V::S(d)]) if !d.is_empty() => {
                    R::Val(V::A(s.split(d.as_str()).map(|p| V::S(p.to_string())).collect()))
                }
                ("strcat", [V::A(v)]) => {
                    let mut o = String::new();
                    for p in v {
                        match p { V::S(s) => o.push_str(s), _ => return R::Unk }
                    }
                    R::Val(V::S(o))
                }
                _ => R::Unk,
            }
        }
        X::Tpl(parts) => {
            let mut o = String::new();
            for p in parts {
                match val!(p) { V::S(s) => o.push_str(&s), _ => return R::Unk }
            }
            R::Val(V::S(o))
        }
        X::Req(p) => R::Val(env.req(p)),
    }
}

// ---------------------------------------------------------------- real side
fn conforms(v: &Value, t: &Type) -> bool {
    match (v, t) {
        (_, Type::Any) => true,
        (Value::Integer(_), Type::Integer) => true,
        (Value::Boolean(_), Type::Boolean) => true,
        (Value::String(_), Type::String) => true,
        (Value::Array(a), Type::Array(e)) => a.iter().all(|x| conforms(x, e)),
        (Value::Tuple(a), Type::Tuple(ts)) => a.len() == ts.len() && a.iter().zip(ts).all(|(x, t)| conforms(x, t)),
        (Value::NativeObject(_), Type::NativeObject(_)) => true,
        _ => false,
    }
}

fn to_v(v: &Value) -> Option<V> {
    Some(match v {
        Value::Integer(i) => V::I(*i),
        Value::Boolean(b) => V::B(*b),
        Value::String(s) => V::S(s.clone()),
        Value::Array(a) => V::A(a.iter().map(to_v).collect::<Option<Vec<_>>>()?),
        Value::Tuple(a) => V::T(a.iter().map(to_v).collect::<Option<Vec<_>>>()?),
        _ => return None,
    })
}

#[derive(PartialEq, Eq, Debug, Clone, Copy)]
enum ErrClass {
    Dynamic,
    TypeError,
}

fn classify(msg: &str) -> (ErrClass, &'static str) {
    let m = msg.to_ascii_lowercase();
    for (pat, name) in [
        ("index out of bounds", "index out of range"),
        ("failed to cast index", "index out of range"),
        ("failed to compile regex", "invalid regex"),
        ("failed to parse integer", "non-numeric string"),
        ("division by zero", "division by zero"),
        ("divide by zero", "division by zero"),
        ("overflow", "overflow"),
    ] {
        if m.contains(pat) {
            return (ErrClass::Dynamic, name);
        }
    }
    (ErrClass::TypeError, "type error")
}

fn type_error_class(msg: &str) -> String {
    if msg.contains("is undefined") {
        return "unbound variable at request time".into();
    }
    if msg.contains("unable to cast NativeObject(ScopeBinding") {
        return "let-bound value reaches a cast unevaluated".into();
    }
    if let Some(rest) = msg.strip_prefix("unable to cast ") {
        let variant: String = rest.chars().take_while(|c| c.is_ascii_alphanumeric()).collect();
        let target = rest.rsplit(" into ").next().unwrap_or("?");
        let target: String = target.chars().take_while(|c| !c.is_whitespace()).collect();
        return format!("cast {} into {}", variant, target);
    }
    stem(&msg.chars().take(50).collect::<String>())
}

fn envs() -> Vec<Env> {
    let v4: std::net::SocketAddr = "127.0.0.1:0".parse().unwrap();
    let v6: std::net::SocketAddr = "[::1]:65535".parse().unwrap();
    vec![
        Env { listener: "http".into(), source: v4, target: TargetAddress::DomainPort("example.com".into(), 80), feature: Feature::TcpForward, connector: None },
        Env { listener: "socks".into(), source: v6, target: TargetAddress::DomainPort("".into(), 0), feature: Feature::UdpForward, connector: Some("direct".into()) },
        Env { listener: "".into(), source: "10.1.2.3:4".parse().unwrap(), target: TargetAddress::SocketAddr("1.2.3.4:65535".parse().unwrap()), feature: Feature::UdpBind, connector: None },
        Env { listener: "l".into(), source: v4, target: TargetAddress::SocketAddr("[2001:db8::1]:443".parse().unwrap()), feature: Feature::TcpBind, connector: None },
        Env { listener: "x".repeat(300), source: v4, target: TargetAddress::DomainPort("h".repeat(65536), 65535), feature: Feature::TcpForward, connector: None },
        Env { listener: "u".into(), source: v4, target: TargetAddress::Unknown, feature: Feature::TcpForward, connector: None },
        Env { listener: "n".into(), source: v4, target: TargetAddress::DomainPort("10".into(), 10), feature: Feature::TcpForward, connector: None },
    ]
}

fn min_i64() -> X {
    X::Bin("-", Box::new(X::Un("-", Box::new(X::Int(i64::MAX as u64)))), Box::new(X::Int(1)))
}

fn leaves() -> Vec<X> {
    let s = |x: &str| X::Str(x.to_string());
    vec![
        X::Int(0), X::Int(1), X::Un("-", Box::new(X::Int(1))), X::Int(63), X::Int(64), X::Int(i64::MAX as u64), min_i64(),
        X::Bool(true), X::Bool(false),
        s(""), s("a"), s("10"), s("("), s("a,b"),
        X::Arr(vec![]), X::Arr(vec![X::Int(1)]), X::Arr(vec![s("a"), s("b")]), X::Arr(vec![X::Arr(vec![])]), X::Arr(vec![X::Arr(vec![X::Int(1)])]),
        X::Tup(vec![s("a"), X::Int(1)]), X::Tup(vec![]),
        X::Req("request.target"), X::Req("request.target.port"), X::Req("request.source.host"), X::Req("request.listener"), X::Req("request.target.host"),
    ]
}

fn gen_typed(r: &mut Rng, t: &Ty, d: usize, vars: &Vec<(String, Ty)>) -> X {
    let bx = |x: X| Box::new(x);
    // variables of the right type
    if r.chance(1, 6) {
        let c: Vec<_> = vars.iter().filter(|(_, vt)| vt == t).collect();
        if !c.is_empty() {
            return X::Var(r.pick(&c).0.clone());
        }
    }
    if d == 0 {
        return match t {
            Ty::I => match r.below(8) {
                0 => X::Int(0),
                1 => X::Int(r.below(100) as u64),
                2 => X::Un("-", bx(X::Int(r.below(100) as u64))),
                3 => X::Int(i64::MAX as u64),
                4 => min_i64(),
                5 => X::Req(*r.pick(REQ_I)),
                6 => X::Int(*r.pick(&[63u64, 64, 65, 2, 3])),
                _ => X::Int(r.next() >> (1 + r.below(62))),
            },
            Ty::B => X::Bool(r.chance(1, 2)),
            Ty::S => match r.below(6) {
                0 => X::Str("".into()),
                1 => X::Str((*r.pick(&["a", "b", "10", "-5", "a,b", "127.0.0.1", "example.com", "^a$", "(", "x y", "9223372036854775808"])).to_string()),
                2 | 3 => X::Req(*r.pick(REQ_S)),
                _ => X::Str((0..r.below(6)).map(|_| *r.pick(&['a', 'b', '1', ',', '.', ' ', 'é'])).collect()),
            },
            Ty::A(e) => {
                let n = r.below(4);
                let e = if **e == Ty::Any { Ty::I } else { (**e).clone() };
                X::Arr((0..n).map(|_| gen_typed(r, &e, 0, vars)).collect())
            }
            Ty::T(ts) => X::Tup(ts.iter().map(|t| gen_typed(r, t, 0, vars)).collect()),
            Ty::Any => X::Int(1),
        };
    }
    let d1 = d - 1;
    // generic constructs for any type
    match r.below(10) {
        0 => {
            return X::If(bx(gen_typed(r, &Ty::B, d1, vars)), bx(gen_typed(r, t, d1, vars)), bx(gen_typed(r, t, d1, vars)), r.chance(1, 2));
        }
        1 if matches!(t, Ty::I | Ty::B | Ty::S) => {
            // composite values are lazy and do not close over their scope (known finding, probed
            // separately): the generator keeps let-bound values and let bodies scalar
            let vt = rand_ty(r, 0);
            // sometimes shadow an existing name (the bound value may still use the outer binding of that name)
            let name = if !vars.is_empty() && r.chance(1, 3) { r.pick(vars).0.clone() } else { format!("v{}", vars.len()) };
            let val = gen_typed(r, &vt, d1, vars);
            let mut inner: Vec<(String, Ty)> = vars.iter().filter(|(n, _)| *n != name).cloned().collect();
            inner.push((name.clone(), vt));
            return X::Let(vec![(name, val)], bx(gen_typed(r, t, d1, &inner)));
        }
        2 => {
            // index into an array of t
            let n = 1 + r.below(3);
            let arr = X::Arr((0..n).map(|_| gen_typed(r, t, d1, vars)).collect());
            let idx = if r.chance(3, 4) {
                let k = r.below(n + 1) as u64;
                if r.chance(1, 3) { X::Un("-", bx(X::Int(k))) } else { X::Int(k) }
            } else {
                gen_typed(r, &Ty::I, d1, vars)
            };
            return X::Index(bx(arr), bx(idx));
        }
        3 => {
            let n = 1 + r.below(3);
            let k = r.below(n);
            let mut ts: Vec<Ty> = (0..n).map(|_| rand_ty(r, 1)).collect();
            ts[k] = t.clone();
            let tup = X::Tup(ts.iter().map(|t| gen_typed(r, t, d1, vars)).collect());
            return X::TupAcc(bx(tup), k as u64);
        }
        _ => {}
    }
    match t {
        Ty::I => match r.below(6) {
            0 => X::Un(*r.pick(&["-", "~"]), bx(gen_typed(r, &Ty::I, d1, vars))),
            1 => X::Call("to_integer", vec![gen_typed(r, &Ty::S, d1, vars)]),
            _ => X::Bin(*r.pick(INT_OPS), bx(gen_typed(r, &Ty::I, d1, vars)), bx(gen_typed(r, &Ty::I, d1, vars))),
        },
        Ty::B => match r.below(9) {
            0 => X::Un("!", bx(gen_typed(r, &Ty::B, d1, vars))),
            1 | 2 => X::Bin(*r.pick(BOOL_OPS), bx(gen_typed(r, &Ty::B, d1, vars)), bx(gen_typed(r, &Ty::B, d1, vars))),
            3 | 4 | 5 => {
                let st = r.pick(&[Ty::I, Ty::S, Ty::B]).clone();
                X::Bin(*r.pick(CMP_OPS), bx(gen_typed(r, &st, d1, vars)), bx(gen_typed(r, &st, d1, vars)))
            }
            6 => X::Bin(*r.pick(&["=~", "!~"]), bx(gen_typed(r, &Ty::S, d1, vars)), bx(X::Str((*r.pick(&["a", "^a$", "10", "(", "example", "^example$"])).to_string()))),
            7 => {
                let st = r.pick(&[Ty::I, Ty::S, Ty::B]).clone();
                X::Bin("_:", bx(gen_typed(r, &st, d1, vars)), bx(gen_typed(r, &Ty::A(Box::new(st.clone())), d1, vars)))
            }
            _ => X::Call("cidr_match", vec![gen_typed(r, &Ty::S, d1, vars), X::Str((*r.pick(&["127.0.0.0/8", "::/0", "10.0.0.0/8", "x", "1.2.3.4/32"])).to_string())]),
        },
        Ty::S => match r.below(4) {
            0 => X::Call("to_string", vec![{ let t = rand_ty(r, 1); gen_typed(r, &t, d1, vars) }]),
            1 => X::Call("strcat", vec![gen_typed(r, &Ty::A(Box::new(Ty::S)), d1, vars)]),
            _ => {
                let n = 1 + r.below(3);
                X::Tpl((0..n).map(|_| gen_typed(r, &Ty::S, d1, vars)).collect())
            }
        },
        Ty::A(e) => {
            if **e == Ty::S && r.chance(1, 2) {
                X::Call("split", vec![gen_typed(r, &Ty::S, d1, vars), X::Str((*r.pick(&[",", ".", "a", ":"])).to_string())])
            } else {
                let n = r.below(4);
                let e = if **e == Ty::Any { Ty::I } else { (**e).clone() };
                X::Arr((0..n).map(|_| gen_typed(r, &e, d1, vars)).collect())
            }
        }
        Ty::T(ts) => X::Tup(ts.iter().map(|t| gen_typed(r, t, d1, vars)).collect()),
        Ty::Any => X::Int(1),
    }
}

fn rand_ty(r: &mut Rng, d: usize) -> Ty {
    match r.below(if d == 0 { 3 } else { 5 }) {
        0 => Ty::I,
        1 => Ty::B,
        2 => Ty::S,
        3 => Ty::A(Box::new(rand_ty(r, d - 1))),
        _ => Ty::T((0..r.below(3)).map(|_| rand_ty(r, d - 1)).collect()),
    }
}

// replace a random sub-expression by one of another type / break arity / break tuple index
fn mutate(r: &mut Rng, x: &X) -> X {
    fn count(x: &X) -> usize {
        1 + match x {
            X::Arr(v) | X::Tup(v) | X::Tpl(v) | X::Call(_, v) => v.iter().map(count).sum(),
            X::Un(_, a) | X::TupAcc(a, _) => count(a),
            X::Bin(_, a, b) | X::Index(a, b) => count(a) + count(b),
            X::If(a, b, c, _) => count(a) + count(b) + count(c),
            X::Let(v, b) => v.iter().map(|(_, e)| count(e)).sum::<usize>() + count(b),
            _ => 0,
        }
    }
    fn subst(x: &X, k: &mut usize, new: &mut Option<X>) -> X {
        if *k == 0 {
            *k = usize::MAX;
            return new.take().unwrap();
        }
        if *k != usize::MAX {
            *k -= 1;
        }
        let mut go = |e: &X| subst(e, k, new);
        match x {
            X::Arr(v) => X::Arr(v.iter().map(&mut go).collect()),
            X::Tup(v) => X::Tup(v.iter().map(&mut go).collect()),
            X::Tpl(v) => X::Tpl(v.iter().map(&mut go).collect()),
            X::Call(f, v) => X::Call(f, v.iter().map(&mut go).collect()),
            X::Un(o, a) => X::Un(o, Box::new(go(a))),
            X::TupAcc(a, i) => X::TupAcc(Box::new(go(a)), *i),
            X::Bin(o, a, b) => { let a2 = go(a); X::Bin(o, Box::new(a2), Box::new(go(b))) }
            X::Index(a, b) => { let a2 = go(a); X::Index(Box::new(a2), Box::new(go(b))) }
            X::If(a, b, c, t) => { let a2 = go(a); let b2 = go(b); X::If(Box::new(a2), Box::new(b2), Box::new(go(c)), *t) }
            X::Let(v, b) => { let v2 = v.iter().map(|(n, e)| (n.clone(), go(e))).collect(); X::Let(v2, Box::new(go(b))) }
            other => other.clone(),
        }
    }
    let n = count(x);
    let mut k = r.below(n);
    let lv = leaves();
    let repl = match r.below(8) {
        0 => X::Call(*r.pick(&["to_string", "to_integer", "split", "strcat", "cidr_match"]), (0..r.below(4)).map(|_| r.pick(&lv).clone()).collect()),
        1 => X::TupAcc(Box::new(r.pick(&[X::Tup(vec![]), X::Tup(vec![X::Int(1)]), X::Tup(vec![X::Int(1), X::Str("a".into())])]).clone()), r.below(4) as u64),
        2 => X::Bin(*r.pick(CMP_OPS), Box::new(r.pick(&lv).clone()), Box::new(r.pick(&lv).clone())),
        3 => X::Index(Box::new(r.pick(&lv).clone()), Box::new(r.pick(&lv).clone())),
        4 => X::Var("undefined_name".into()),
        _ => r.pick(&lv).clone(),
    };
    subst(x, &mut k, &mut Some(repl))
}

struct Stats {
    accepted: u64,
    rejected: u64,
    ref_welltyped: u64,
    ref_values_compared: u64,
    evals: u64,
}

fn check_one(out: &mut Out, st: &mut Stats, x: &X, envs: &[Env], ctx0: &ScriptContextRef, ctxs: &[ScriptContextRef]) {
    let text = x.text();
    out.case();
    let wit = |extra: serde_json::Value| serde_json::json!({"expr": text.chars().take(400).collect::<String>(), "detail": extra});
    // ---- load as the loaders do
    let parsed = match guard(|| parse(&text)) {
        Err(p) => {
            out.violation(format!("load: parse {}", p.sig()), wit(serde_json::json!(p.msg)));
            return;
        }
        Ok(Err(_)) => {
            // printer only emits documented syntax: a syntax error here is reported under C09's signatures there; count only
            out.count("unparsable", 1);
            return;
        }
        Ok(Ok(v)) => v,
    };
    let rty = ref_type(x, &vec![]);
    if rty.is_some() {
        st.ref_welltyped += 1;
    }
    let real_ty = match guard(|| parsed.type_of(ctx0.clone())) {
        Err(p) => {
            out.violation(format!("load: type_of {}", p.sig()), wit(serde_json::json!(p.msg)));
            return;
        }
        Ok(Err(_)) => {
            st.rejected += 1;
            return;
        }
        Ok(Ok(t)) => t,
    };
    // the load-balancer key loader works on real_type_of / real_value_of: use that pair when the plain
    // type is a native object (e.g. a let body that is a bare variable, request.target)
    let use_real = matches!(real_ty, Type::NativeObject(_));
    let real_ty = if use_real {
        match guard(|| parsed.real_type_of(ctx0.clone())) {
            Err(p) => {
                out.violation(format!("load: real_type_of {}", p.sig()), wit(serde_json::json!(p.msg)));
                return;
            }
            Ok(Err(_)) => {
                st.rejected += 1;
                return;
            }
            Ok(Ok(t)) => t,
        }
    } else {
        real_ty
    };
    st.accepted += 1;
    out.nontrivial(&text);
    if out.want_sample() && text.len() > 30 && text.len() < 200 {
        out.sample(serde_json::json!({"expr": text, "checker_type": real_ty.to_string(), "reference_type": format!("{:?}", rty)}));
    }
    // ---- evaluate under every environment
    for (env, ctx) in envs.iter().zip(ctxs) {
        st.evals += 1;
        let got = match guard(|| if use_real { parsed.real_value_of(ctx.clone()) } else { parsed.value_of(ctx.clone()) }) {
            Err(p) => {
                out.violation(format!("eval: {}", p.sig()), wit(serde_json::json!({"panic": p.msg, "checker_type": real_ty.to_string(), "target": env.target.to_string().chars().take(40).collect::<String>()})));
                return;
            }
            Ok(g) => g,
        };
        let reference = match if rty.is_some() { ref_eval(x, env, &vec![]) } else { R::Unk } {
            R::Val(v) if has_u(&v) => R::Unk,
            other => other,
        };
        match got {
            Err(e) => {
                let msg = format!("{} / {:?}", e, e.cause.as_ref().map(|c| c.to_string()));
                let (cls, name) = classify(&msg);
                if cls == ErrClass::TypeError {
                    out.violation(
                        if text.contains("[]") {
                            // `[]` is typed [any] and any compares equal to every type: known hole, own signature
                            "eval: accepted expression containing an empty array literal (typed [any]) fails with a type error".to_string()
                        } else {
                            format!("eval: accepted expression fails with a type error: {}", type_error_class(&e.to_string()))
                        },
                        wit(serde_json::json!({"error": msg.chars().take(300).collect::<String>(), "checker_type": real_ty.to_string()})),
                    );
                    return;
                }
                match reference {
                    R::Val(v) => {
                        out.violation(
                            format!("eval: dynamic error \"{}\" where the documented semantics give a value", name),
                            wit(serde_json::json!({"error": msg.chars().take(200).collect::<String>(), "expected": format!("{:?}", v).chars().take(200).collect::<String>()})),
                        );
                        return;
                    }
                    _ => {}
                }
            }
            Ok(v) => {
                // shape: value_of against type_of, as the filter / log-format loaders use them
                // composite values are lazy (elements unevaluated), so only scalar results are judged
                let shape_ok = match &real_ty {
                    t @ (Type::Integer | Type::Boolean | Type::String) => conforms(&v, t),
                    _ => true,
                };
                if !shape_ok {
                    out.violation(
                        format!("eval: value shape differs from checker type {}", real_ty),
                        wit(serde_json::json!({"value": format!("{}", v).chars().take(200).collect::<String>(), "checker_type": real_ty.to_string()})),
                    );
                    return;
                }
                // loader casts: a filter is accepted when type == Boolean, a log format when type == String
                if real_ty == Type::Boolean && !matches!(real_ty, Type::Any) {
                    let b: Result<bool, _> = v.clone().try_into();
                    if b.is_err() {
                        out.violation("eval: accepted as Boolean filter but value is not a boolean".into(), wit(serde_json::json!(format!("{}", v))));
                        return;
                    }
                }
                match reference {
                    R::Val(expect) if matches!(expect, V::I(_) | V::B(_) | V::S(_)) => {
                        st.ref_values_compared += 1;
                        let gv = match &v {
                            Value::NativeObject(o) => o.as_evaluatable().and_then(|e| e.value_of(ctx.clone()).ok()).and_then(|x| to_v(&x)),
                            other => to_v(other),
                        };
                        if gv.as_ref() != Some(&expect) {
                            let opname = match x { X::Bin(op, ..) => op.to_string(), X::Un(op, ..) => op.to_string(), X::Call(f, ..) => f.to_string(), _ => "expr".into() };
                            out.violation(
                                format!("eval: value differs from documented semantics (top-level {})", opname),
                                wit(serde_json::json!({"got": format!("{}", v).chars().take(200).collect::<String>(), "expected": format!("{:?}", expect).chars().take(200).collect::<String>()})),
                            );
                            return;
                        }
                    }
                    R::Dyn(what) => {
                        out.violation(
                            format!("eval: value returned where the documented semantics give the dynamic error \"{}\"", what),
                            wit(serde_json::json!({"got": format!("{}", v).chars().take(200).collect::<String>()})),
                        );
                        return;
                    }
                    _ => {}
                }
            }
        }
    }
}

pub fn run(args: &Args) {
    let mut out = Out::new(
        "C08",
        "c08",
        "expressions: bounded-exhaustive depth<=2 over every operator/function x leaf set, wrong arities, tuple indices, request.* fields; random well-typed trees to depth 5 and ill-typed mutants of them; each loaded as the loaders do and, if accepted, evaluated under 7 request environments. distinct = distinct accepted expression texts",
    );
    let envs = envs();
    let ctx0: ScriptContextRef = Arc::new(create_context(Default::default()));
    let lv = leaves();
    let bx = |x: &X| Box::new(x.clone());

    // ---------------- bounded-exhaustive part (single thread is fast enough; split by op)
    let mut exhaustive: Vec<X> = vec![];
    for a in &lv {
        exhaustive.push(a.clone());
        for op in ["!", "~", "-"] {
            exhaustive.push(X::Un(op, bx(a)));
        }
        for f in ["to_string", "to_integer", "split", "strcat", "cidr_match"] {
            exhaustive.push(X::Call(f, vec![]));
            exhaustive.push(X::Call(f, vec![a.clone()]));
        }
        for k in 0..4 {
            exhaustive.push(X::TupAcc(bx(a), k));
        }
        for b in &lv {
            for op in INT_OPS.iter().chain(CMP_OPS).chain(BOOL_OPS).chain(&["=~", "!~", "_:"]) {
                exhaustive.push(X::Bin(op, bx(a), bx(b)));
            }
            exhaustive.push(X::Index(bx(a), bx(b)));
            for f in ["to_string", "to_integer", "split", "strcat", "cidr_match"] {
                exhaustive.push(X::Call(f, vec![a.clone(), b.clone()]));
            }
            exhaustive.push(X::If(bx(a), bx(b), bx(b), false));
            exhaustive.push(X::If(bx(&X::Bool(true)), bx(a), bx(b), true));
            exhaustive.push(X::Let(vec![("v".into(), a.clone())], Box::new(X::Bin("==", Box::new(X::Var("v".into())), bx(b)))));
            exhaustive.push(X::Tpl(vec![a.clone(), b.clone()]));
            exhaustive.push(X::Arr(vec![a.clone(), b.clone()]));
        }
    }
    for p in REQ_S.iter().chain(REQ_I) {
        exhaustive.push(X::Req(p));
        exhaustive.push(X::Bin("==", Box::new(X::Req(p)), Box::new(X::Str("a".into()))));
        exhaustive.push(X::Bin("==", Box::new(X::Req(p)), Box::new(X::Int(80))));
        exhaustive.push(X::Bin("+", Box::new(X::Req(p)), Box::new(X::Int(1))));
        exhaustive.push(X::Bin(">=", Box::new(X::Req(p)), Box::new(X::Int(1024))));
        exhaustive.push(X::Call("to_integer", vec![X::Req(p)]));
        exhaustive.push(X::Call("to_string", vec![X::Req(p)]));
        exhaustive.push(X::Tpl(vec![X::Str("x=".into()), X::Req(p)]));
        exhaustive.push(X::Bin("_:", Box::new(X::Req(p)), Box::new(X::Arr(vec![X::Str("a".into())]))));
        exhaustive.push(X::Bin("_:", Box::new(X::Req(p)), Box::new(X::Arr(vec![X::Int(80), X::Int(443)]))));
    }
    // depth-2 slice: every binary operator over (op1(l1,l2), l3) for a reduced leaf set
    let small: Vec<X> = if args.thorough {
        vec![X::Int(0), X::Int(1), min_i64(), X::Bool(true), X::Str("a".into()), X::Arr(vec![]), X::Tup(vec![X::Int(1)]), X::Req("request.target.port")]
    } else {
        vec![X::Int(0), min_i64(), X::Bool(true), X::Str("a".into()), X::Req("request.target.port")]
    };
    let all_ops: Vec<&'static str> = INT_OPS.iter().chain(CMP_OPS).chain(BOOL_OPS).chain(&["=~", "!~", "_:"]).cloned().collect();
    for o1 in &all_ops {
        for o2 in &all_ops {
            for a in &small {
                for b in &small {
                    exhaustive.push(X::Bin(o2, Box::new(X::Bin(o1, bx(a), bx(b))), bx(b)));
                }
            }
        }
    }
    out.set("exhaustive_expressions", serde_json::json!(exhaustive.len()));

    let n_random = args.n(12_000, 1_500_000);
    let seeds: Vec<u64> = { let mut r = Rng::new(args.seed); (0..n_workers()).map(|_| r.next()).collect() };
    let ex = &exhaustive;
    let envs_ref = &envs;
    parallel(&mut out, |wi, wn, out| {
        let ctx0: ScriptContextRef = Arc::new(create_context(Default::default()));
        let ctxs: Vec<ScriptContextRef> = envs_ref.iter().map(|e| Arc::new(create_context(e.props()))).collect();
        let mut st = Stats { accepted: 0, rejected: 0, ref_welltyped: 0, ref_values_compared: 0, evals: 0 };
        for (i, x) in ex.iter().enumerate() {
            if i % wn == wi {
                check_one(out, &mut st, x, envs_ref, &ctx0, &ctxs);
            }
        }
        let mut r = Rng::new(seeds[wi]);
        for _ in 0..(n_random / wn + 1) {
            let t = rand_ty(&mut r, 0); // loaders only accept scalar results
            let d = 1 + r.below(4);
            let x = gen_typed(&mut r, &t, d, &vec![]);
            check_one(out, &mut st, &x, envs_ref, &ctx0, &ctxs);
            if r.chance(1, 2) {
                let m = mutate(&mut r, &x);
                check_one(out, &mut st, &m, envs_ref, &ctx0, &ctxs);
            }
        }
        out.count("accepted_by_checker", st.accepted);
        out.count("rejected_by_checker", st.rejected);
        out.count("reference_welltyped", st.ref_welltyped);
        out.count("values_compared_with_reference", st.ref_values_compared);
        out.count("evaluations_under_environments", st.evals);
    });
    let _ = ctx0;

    // ---------------- probes for composite-value laziness and Any-typed holes (fixed expressions)
    {
        let env = &envs[0];
        let ctx: ScriptContextRef = Arc::new(create_context(env.props()));
        let probes: Vec<(&str, &str, V)> = vec![
            ("array built inside let used outside its scope", "strcat(let v = \"a\" in [v, \"b\"]) == \"ab\"", V::B(true)),
            ("array built inside let sees a shadowing outer variable", "(let v = \"a\" in strcat(let v = \"b\" in [v])) == \"b\"", V::B(true)),
            ("let-bound variable as array element then indexed", "let v = true in [false, v][1]", V::B(true)),
            ("let-bound variable as array element in membership test", "let v = 1 in 1 _: [v]", V::B(true)),
            ("let-bound variable as tuple member", "let v = 1 in ((0, v).1 + 1) == 2", V::B(true)),
            ("element of a nested empty-array literal typed Any", "([[], [\"a\"]][1][0] + 1) == 2", V::B(true)),
            ("let-bound variable as if condition", "let v = true in (if [v][0] then 1 else 2) == 1", V::B(true)),
            ("let-bound boolean in logical and", "let v = true in v && v", V::B(true)),
            ("template with let-bound string", "let v = \"a\" in `x${v}` == \"xa\"", V::B(true)),
            ("inner let shadows a name and uses the outer binding", "let p = 1 in let p = p + 1 in p == 2", V::B(true)),
            ("two bindings of one let do not see each other", "let a = 1 in let a = 2; b = a in b == 1", V::B(true)),
        ];
        for (name, text, expect) in probes {
            out.case();
            out.nontrivial(&text);
            let parsed = match parse(text) {
                Ok(p) => p,
                Err(_) => {
                    out.violation(format!("probe [{}]: syntax error", name), serde_json::json!({"expr": text}));
                    continue;
                }
            };
            match guard(|| parsed.type_of(ctx.clone())) {
                Err(p) => out.violation(format!("probe [{}]: load {}", name, p.sig()), serde_json::json!({"expr": text})),
                Ok(Err(_)) => {
                    out.count("probes_rejected_at_load", 1); // sound
                }
                Ok(Ok(t)) => match guard(|| parsed.value_of(ctx.clone())) {
                    Err(p) => out.violation(format!("probe [{}]: eval {}", name, p.sig()), serde_json::json!({"expr": text})),
                    Ok(Err(e)) => {
                        let (cls, cname) = classify(&e.to_string());
                        if cls == ErrClass::TypeError {
                            out.violation(format!("probe [{}]: accepted with type {} but fails with a type error: {}", name, t, type_error_class(&e.to_string())), serde_json::json!({"expr": text, "error": e.to_string()}));
                        } else {
                            out.violation(format!("probe [{}]: dynamic error \"{}\" where a value is defined", name, cname), serde_json::json!({"expr": text, "error": e.to_string()}));
                        }
                    }
                    Ok(Ok(v)) => {
                        if to_v(&v) != Some(expect.clone()) {
                            out.violation(format!("probe [{}]: wrong value", name), serde_json::json!({"expr": text, "got": format!("{}", v), "expected": format!("{:?}", expect)}));
                        }
                    }
                },
            }
        }
    }

    // ---------------- literals nested in literals, and ill-typed arguments of any-typed parameters: whatever the checker accepts
    // must evaluate without a type error (no expected value here: rejection at load is the sound answer for most of them)
    {
        let env = &envs[0];
        let ctx: ScriptContextRef = Arc::new(create_context(env.props()));
        let leaves: [(&str, &str); 3] = [("1", "+ 1 == 2"), ("\"a\"", "== \"a\""), ("true", "&& true")];
        let mut texts: Vec<String> = vec![];
        for (a, use_a) in leaves.iter() {
            for (b, _) in leaves.iter() {
                // the use fits the FIRST member's type; index 1 selects the second
                texts.push(format!("([[{}],[{}]][1][0]) {}", a, b, use_a));
                texts.push(format!("([({},{}),({},{})][1].0) {}", a, a, b, b, use_a));
                texts.push(format!("([[[{}]],[[{}]]][1][0][0]) {}", a, b, use_a));
                texts.push(format!("([({},),({},{})][1].1) {}", a, b, b, use_a));
                texts.push(format!("(if true then [[{}]] else [[{}]])[0][0] {}", b, a, use_a));
                // the same through let-bound composites: two variables of the same outer shape, the branch taken is the second
                texts.push(format!("let a=({},2);b=({},2) in ((if false then a else b).0) {}", a, b, use_a));
                texts.push(format!("let a=[{}];b=[{}] in ((false ? a : b)[0]) {}", a, b, use_a));
                texts.push(format!("let a=({},);b=({},{}) in ((if request.target.port == 0 then a else b).0) {}", a, b, b, use_a));
                texts.push(format!("let a=[[{}]];b=[[{}]] in ((if request.target.port == 0 then a else b)[0][0]) {}", a, b, use_a));
                texts.push(format!("let a=({},{});b=({},) in ((if false then a else b).1) {}", a, a, a, use_a));
            }
        }
        for t in ["[[1],[1 + \"a\"]][1][0] == 1", "[(1,2),(3,)][1].1 == 1", "[[1,2],[true]][1][0] && true", "[[\"a\"],[2]][1][0] =~ \"a\"", "[(1,\"a\"),(\"a\",1)][1].0 + 1 == 2",
                  "to_string(1 + \"a\") == \"x\"", "to_string(!5) == \"x\"", "to_string(request.target.port + request.target.host) =~ \"^4\"", "`${to_string(1 && 2)}` == \"x\"",
                  "to_string([1, \"a\"]) == \"x\"", "to_string(nosuch) == \"x\"", "to_string(1 / \"a\") == \"x\""] {
            texts.push(t.to_string());
        }
        for text in texts {
            out.case();
            out.nontrivial(&text);
            let parsed = match parse(&text) {
                Ok(p) => p,
                Err(_) => {
                    out.count("nested_literal_probes_syntax_rejected", 1);
                    continue;
                }
            };
            match guard(|| parsed.type_of(ctx.clone())) {
                Err(p) => out.violation(format!("load: type_of {}", p.sig()), serde_json::json!({"expr": text})),
                Ok(Err(_)) => out.count("nested_literal_probes_rejected_at_load", 1),
                Ok(Ok(t)) => match guard(|| parsed.value_of(ctx.clone())) {
                    Err(p) => out.violation(format!("eval: {}", p.sig()), serde_json::json!({"expr": text})),
                    Ok(Err(e)) => {
                        let (cls, _) = classify(&e.to_string());
                        if cls == ErrClass::TypeError {
                            out.violation(
                                format!("eval: accepted expression fails with a type error: {} (literal nested in a literal / argument of an any-typed parameter)", type_error_class(&e.to_string())),
                                serde_json::json!({"expr": text, "accepted_as": t.to_string(), "error": e.to_string()}),
                            );
                        }
                    }
                    Ok(Ok(_)) => out.count("nested_literal_probes_evaluated", 1),
                },
            }
        }
    }

    // ---------------- request.* declared type vs runtime shape, every field, every environment
    for env in &envs {
        let ctx: ScriptContextRef = Arc::new(create_context(env.props()));
        for p in REQ_S.iter().chain(REQ_I) {
            out.case();
            let v = parse(p).unwrap();
            let t = guard(|| v.real_type_of(ctx.clone()));
            let val = guard(|| v.real_value_of(ctx.clone()));
            match (t, val) {
                (Ok(Ok(t)), Ok(Ok(val))) => {
                    if !conforms(&val, &t) {
                        out.violation(
                            format!("request field {} declared {} but evaluates to another shape", p, t),
                            serde_json::json!({"field": p, "declared": t.to_string(), "value": format!("{}", val).chars().take(80).collect::<String>()}),
                        );
                    } else if to_v(&val) != Some(env.req(p)) {
                        out.violation(format!("request field {} value differs from the connection's", p), serde_json::json!({"got": format!("{}", val).chars().take(80).collect::<String>()}));
                    }
                }
                (Err(p2), _) | (_, Err(p2)) => out.violation(format!("request field {}: {}", p, p2.sig()), serde_json::json!(p2.msg)),
                (a, b) => out.violation(format!("request field {} not evaluable", p), serde_json::json!(format!("{:?} {:?}", a.map(|x| x.map(|t| t.to_string())), b.map(|x| x.map(|t| t.to_string()))))),
            }
        }
    }
    out.finish();
}

/// nesting-depth ladder, run in a subprocess by the driver because a stack overflow escapes catch_unwind
pub fn run_depth(args: &Args) {
    let depth: usize = args.get("depth").and_then(|d| d.parse().ok()).unwrap_or(1000);
    let kind = args.get("kind").unwrap_or("paren");
    let text = match kind {
        "paren" => format!("{}1{} == 1", "(".repeat(depth), ")".repeat(depth)),
        "not" => format!("{}true", "!".repeat(depth)),
        "plus" => format!("{} == 1", vec!["1"; depth + 1].join(" + ")),
        "array" => format!("{}{} == []", "[".repeat(depth), "]".repeat(depth)),
        _ => format!("{} true {}", "if true then ".repeat(depth), " else false".repeat(depth)),
    };
    let ctx: ScriptContextRef = Arc::new(create_context(Default::default()));
    let r = parse(&text).map(|v| {
        let t = v.type_of(ctx.clone()).map(|t| t.to_string());
        let val = v.value_of(ctx).map(|v| v.to_string().len());
        (t.is_ok(), val.is_ok())
    });
    println!("{}", serde_json::json!({"t":"depth","kind":kind,"depth":depth,"parsed":r.is_ok()}));
}
