// C02 — routing: first matching rule wins, default deny, nothing reaches a connector on deny, filter
// attributes equal the connection's, cidr_match equals standard containment.
// Oracle: a reference first-match router over filter templates whose truth (true / false / error) the
// harness computes itself from the request; observation: which recording connector's connect() ran.
use super::rec::*;
use super::util::*;
use crate::context::{ContextRefOps, ContextState, Feature, TargetAddress};
use std::net::IpAddr;

#[derive(Clone, Debug, PartialEq, Eq)]
enum Tri {
    T,
    F,
    E,
}

#[derive(Clone, Debug)]
enum Flt {
    Atom(String, Tri3), // source text, truth function
    And(Box<Flt>, Box<Flt>),
    Or(Box<Flt>, Box<Flt>),
    Not(Box<Flt>),
}

#[derive(Clone, Debug)]
enum Tri3 {
    ListenerEq(String, bool),
    SourceHostEq(String),
    SourceTypeEq(String),
    TargetHostEq(String, bool),
    TargetTypeEq(String),
    TargetPortEq(u16),
    TargetPortGe(u16),
    TargetPortIn(Vec<u16>),
    PortInComputed(u16),    // request.target.port _: [request.source.port, (p - 1) + 1, 0 - 1]  (members are expressions)
    HostInAttrs(String),    // "<s>" _: [request.target.host, request.listener]
    FeatureEq(String),
    TargetHostLike(String),
    TargetLikeExact(String),
    TargetLikeOwnPort,     // request.target =~ to_string(request.target.port) : the pattern is computed per request
    TypeLikeSourceType(bool), // request.target.type =~ request.source.type (or !~): pattern taken from another attribute
    CidrSource(String),
    CidrTarget(String),
    ToIntHostEq(i64),      // to_integer(request.target.host) == n : error unless the host is numeric
    SplitIndex(usize),     // split(request.target.host, ".")[k] == "com"
    BadRegex,              // request.target.host =~ "(" : always an error
    Const(bool),
}

fn cidr_contains(ip: &IpAddr, cidr: &str) -> bool {
    // independent bitwise containment; non-matching families never contain each other
    let (net, plen) = cidr.split_once('/').unwrap();
    let plen: u32 = plen.parse().unwrap();
    match (ip, net.parse::<IpAddr>().unwrap()) {
        (IpAddr::V4(a), IpAddr::V4(n)) => {
            let (a, n) = (u32::from(*a), u32::from(n));
            plen == 0 || (a >> (32 - plen)) == (n >> (32 - plen))
        }
        (IpAddr::V6(a), IpAddr::V6(n)) => {
            let (a, n) = (u128::from(*a), u128::from(n));
            plen == 0 || (a >> (128 - plen)) == (n >> (128 - plen))
        }
        _ => false,
    }
}

fn eval_atom(a: &Tri3, r: &Req) -> Tri {
    let b = |x: bool| if x { Tri::T } else { Tri::F };
    let thost = r.target.host();
    match a {
        Tri3::ListenerEq(s, eq) => b((&r.listener == s) == *eq),
        Tri3::SourceHostEq(s) => b(&r.source.ip().to_string() == s),
        Tri3::SourceTypeEq(s) => b((if r.source.is_ipv4() { "ipv4" } else { "ipv6" }) == s),
        Tri3::TargetHostEq(s, eq) => b((&thost == s) == *eq),
        Tri3::TargetTypeEq(s) => b(r.target.r#type() == s),
        Tri3::TargetPortEq(p) => b(r.target.port() == *p),
        Tri3::TargetPortGe(p) => b(r.target.port() >= *p),
        Tri3::TargetPortIn(v) => b(v.contains(&r.target.port())),
        Tri3::PortInComputed(p) => b(r.target.port() == r.source.port() || r.target.port() == *p),
        Tri3::HostInAttrs(s2) => b(&thost == s2 || &r.listener == s2),
        Tri3::FeatureEq(s) => b(feature_name(r.feature) == s),
        Tri3::TargetHostLike(s) => b(thost.contains(s.as_str())),
        Tri3::TargetLikeOwnPort => Tri::T,
        Tri3::TypeLikeSourceType(like) => b((r.target.r#type() == if r.source.is_ipv4() { "ipv4" } else { "ipv6" }) == *like),
        Tri3::TargetLikeExact(s) => b(&r.target.to_string() == s),
        Tri3::CidrSource(c) => b(cidr_contains(&r.source.ip(), c)),
        Tri3::CidrTarget(c) => match thost.parse::<IpAddr>() {
            Ok(ip) => b(cidr_contains(&ip, c)),
            Err(_) => Tri::F,
        },
        Tri3::ToIntHostEq(n) => match thost.parse::<i64>() {
            Ok(v) => b(v == *n),
            Err(_) => Tri::E,
        },
        Tri3::SplitIndex(k) => {
            let parts: Vec<&str> = thost.split('.').collect();
            match parts.get(*k) {
                Some(p) => b(*p == "com"),
                None => Tri::E,
            }
        }
        Tri3::BadRegex => Tri::E,
        Tri3::Const(x) => b(*x),
    }
}

impl Flt {
    // half of the composite filters are written the way people write them: with only the parentheses the documented precedence
    // (|| below && below comparisons and calls) requires, e.g. `a == 1 || b == 2 && c == 3`; the others fully parenthesised
    fn text(&self) -> String {
        let full = self.text_full();
        if full.len() % 2 == 0 {
            self.text_min()
        } else {
            full
        }
    }
    fn text_full(&self) -> String {
        match self {
            Flt::Atom(s, _) => s.clone(),
            Flt::And(a, b) => format!("({}) && ({})", a.text_full(), b.text_full()),
            Flt::Or(a, b) => format!("({}) || ({})", a.text_full(), b.text_full()),
            Flt::Not(a) => format!("!({})", a.text_full()),
        }
    }
    fn text_min(&self) -> String {
        let paren = |s: String| format!("({})", s);
        match self {
            Flt::Atom(s, _) => {
                if ["||", "&&", "?", " or ", " and ", " if ", "let "].iter().any(|w| s.contains(w)) {
                    paren(s.clone())
                } else {
                    s.clone()
                }
            }
            Flt::And(a, b) => {
                let l = if matches!(**a, Flt::Or(..)) { paren(a.text_min()) } else { a.text_min() };
                let r = if matches!(**b, Flt::Or(..) | Flt::And(..)) { paren(b.text_min()) } else { b.text_min() };
                format!("{} && {}", l, r)
            }
            Flt::Or(a, b) => {
                let r = if matches!(**b, Flt::Or(..)) { paren(b.text_min()) } else { b.text_min() };
                format!("{} || {}", a.text_min(), r)
            }
            Flt::Not(a) => format!("!({})", a.text_min()),
        }
    }
    fn eval(&self, r: &Req) -> Tri {
        match self {
            Flt::Atom(_, a) => eval_atom(a, r),
            Flt::Not(a) => match a.eval(r) {
                Tri::T => Tri::F,
                Tri::F => Tri::T,
                Tri::E => Tri::E,
            },
            Flt::And(a, b) => match a.eval(r) {
                Tri::F => Tri::F,
                Tri::E => Tri::E,
                Tri::T => b.eval(r),
            },
            Flt::Or(a, b) => match a.eval(r) {
                Tri::T => Tri::T,
                Tri::E => Tri::E,
                Tri::F => b.eval(r),
            },
        }
    }
}

fn canonical_cidr(r: &mut Rng, base: Option<IpAddr>) -> String {
    let v6 = match base {
        Some(IpAddr::V6(_)) => true,
        Some(IpAddr::V4(_)) => false,
        None => r.chance(1, 3),
    };
    if v6 {
        let plen = *r.pick(&[0u32, 1, 7, 8, 32, 48, 64, 96, 104, 127, 128]);
        let a: u128 = match base {
            Some(IpAddr::V6(a)) => u128::from(a),
            _ => ((r.next() as u128) << 64) | r.next() as u128,
        };
        let masked = if plen == 0 { 0 } else { a >> (128 - plen) << (128 - plen) };
        format!("{}/{}", std::net::Ipv6Addr::from(masked), plen)
    } else {
        let plen = *r.pick(&[0u32, 1, 7, 8, 9, 16, 23, 24, 25, 31, 32]);
        let a: u32 = match base {
            Some(IpAddr::V4(a)) => u32::from(a),
            _ => r.next() as u32,
        };
        let masked = if plen == 0 { 0 } else { a >> (32 - plen) << (32 - plen) };
        format!("{}/{}", std::net::Ipv4Addr::from(masked), plen)
    }
}

fn atom(r: &mut Rng, req: &Req) -> Flt {
    // half of the atoms are built from the request at hand so that they are true reasonably often
    let near = r.chance(1, 2);
    let q = |s: &str| format!("\"{}\"", s);
    let thost = req.target.host();
    let (text, a) = match r.below(22) {
        0 => {
            let l = if near { req.listener.clone() } else { "other".into() };
            let eq = r.chance(3, 4);
            (format!("request.listener {} {}", if eq { "==" } else { "!=" }, q(&l)), Tri3::ListenerEq(l, eq))
        }
        1 => {
            let h = if near { req.source.ip().to_string() } else { "10.9.9.9".into() };
            (format!("request.source.host == {}", q(&h)), Tri3::SourceHostEq(h))
        }
        2 => {
            let t = (*r.pick(&["ipv4", "ipv6"])).to_string();
            (format!("request.source.type == {}", q(&t)), Tri3::SourceTypeEq(t))
        }
        3 => {
            let h = if near { thost.clone() } else { "example.org".into() };
            let eq = r.chance(3, 4);
            (format!("request.target.host {} {}", if eq { "==" } else { "!=" }, q(&h)), Tri3::TargetHostEq(h, eq))
        }
        4 => {
            let t = (*r.pick(&["domain", "ipv4", "ipv6"])).to_string();
            (format!("request.target.type == {}", q(&t)), Tri3::TargetTypeEq(t))
        }
        5 => {
            let p = if near { req.target.port() } else { *r.pick(&[0u16, 80, 443, 65535]) };
            (format!("request.target.port == {}", p), Tri3::TargetPortEq(p))
        }
        6 => {
            let p = *r.pick(&[0u16, 1, 80, 443, 1024, 65535]);
            (format!("request.target.port >= {}", p), Tri3::TargetPortGe(p))
        }
        7 => match r.below(3) {
            0 => {
                let v = vec![*r.pick(&[22u16, 80]), *r.pick(&[443u16, 8080, 0])];
                (format!("request.target.port _: [{}, {}]", v[0], v[1]), Tri3::TargetPortIn(v))
            }
            1 => {
                // members that are not literals: an attribute, arithmetic, a negative number
                let p = if near { req.target.port() } else { *r.pick(&[80u16, 443, 8080]) };
                (format!("request.target.port _: [request.source.port, ({} - 1) + 1, 0 - 1]", p), Tri3::PortInComputed(p))
            }
            _ => {
                let s2 = if near { req.target.host() } else { (*r.pick(&["http", "example.com", "nobody"])).to_string() };
                (format!("{} _: [request.target.host, request.listener]", q(&s2)), Tri3::HostInAttrs(s2))
            }
        },
        8 => {
            let f = if near { feature_name(req.feature).to_string() } else { (*r.pick(&["TcpForward", "UdpForward", "UdpBind"])).to_string() };
            (format!("request.feature == {}", q(&f)), Tri3::FeatureEq(f))
        }
        9 => {
            let s = (*r.pick(&["example", "com", "deny", "10", "google", "zzz"])).to_string();
            (format!("request.target.host =~ {}", q(&s)), Tri3::TargetHostLike(s))
        }
        10 => {
            // anchored literal over the whole "host:port" rendering; only literal-safe targets are used
            let t = req.target.to_string();
            let safe = t.chars().all(|c| c.is_ascii_alphanumeric() || c == ':' || c == '-');
            if near && safe {
                (format!("request.target =~ {}", q(&format!("^{}$", t))), Tri3::TargetLikeExact(t))
            } else {
                (format!("request.target =~ {}", q("^nomatch:1$")), Tri3::TargetLikeExact("nomatch:1".into()))
            }
        }
        11 | 12 => {
            let c = canonical_cidr(r, if near { Some(req.source.ip()) } else { None });
            (format!("cidr_match(request.source.host, {})", q(&c)), Tri3::CidrSource(c))
        }
        13 | 14 => {
            let base = thost.parse::<IpAddr>().ok();
            let c = canonical_cidr(r, if near { base } else { None });
            (format!("cidr_match(request.target.host, {})", q(&c)), Tri3::CidrTarget(c))
        }
        15 => {
            let n = *r.pick(&[1i64, 10]);
            (format!("to_integer(request.target.host) == {}", n), Tri3::ToIntHostEq(n))
        }
        16 => {
            let k = *r.pick(&[1usize, 2, 9]);
            (format!("split(request.target.host, \".\")[{}] == \"com\"", k), Tri3::SplitIndex(k))
        }
        17 => ("request.target.host =~ \"(\"".to_string(), Tri3::BadRegex),
        18 => ("request.target =~ to_string(request.target.port)".to_string(), Tri3::TargetLikeOwnPort),
        19 => {
            let like = r.chance(1, 2);
            (format!("request.target.type {} request.source.type", if like { "=~" } else { "!~" }), Tri3::TypeLikeSourceType(like))
        }
        _ => {
            let v = r.chance(1, 2);
            (v.to_string(), Tri3::Const(v))
        }
    };
    Flt::Atom(text, a)
}

fn gen_filter(r: &mut Rng, req: &Req, depth: usize) -> Flt {
    if depth == 0 || r.chance(1, 2) {
        return atom(r, req);
    }
    match r.below(3) {
        0 => Flt::And(Box::new(gen_filter(r, req, depth - 1)), Box::new(gen_filter(r, req, depth - 1))),
        1 => Flt::Or(Box::new(gen_filter(r, req, depth - 1)), Box::new(gen_filter(r, req, depth - 1))),
        _ => Flt::Not(Box::new(gen_filter(r, req, depth - 1))),
    }
}

struct RuleSpec {
    filter: Option<Flt>,
    target: String,
}

pub async fn run(args: &Args) {
    let mut out = Out::new(
        "C02",
        "c02",
        "generated rule lists (length 0..12, duplicates, deny anywhere, filterless rules anywhere, erroring filters anywhere; filters from a template family whose truth the harness computes: ==/!= on listener/source/target/feature, port ==, >=, _:, =~ literals, cidr_match vs bitwise containment, &&/||/!) loaded through rules::from_config + set_rules; requests (listener, IPv4/IPv6 source, domain/IPv4/IPv6 target, port, feature) run through the real process_request with recording connectors of random feature sets and a real load balancer. distinct = distinct (rule list text, request) pairs where at least one filter was evaluated",
    );
    let mut rng = Rng::new(args.seed);
    let n_lists = args.n(5000, 200_000);
    let all_features = [Feature::TcpForward, Feature::UdpForward, Feature::UdpBind, Feature::TcpBind];
    let mut decisions = std::collections::HashMap::<String, u64>::new();
    let mut cidr_checks = 0u64;
    for li in 0..n_lists {
        // connectors with random feature sets (c0 always carries everything so that allows happen)
        let mut recs = vec![RecConnector::new("c0", &all_features)];
        for i in 1..4 {
            let fs: Vec<Feature> = all_features.iter().filter(|_| rng.chance(2, 3)).cloned().collect();
            recs.push(RecConnector::new(&format!("c{}", i), &fs));
        }
        let lb = serde_json::json!({"name": "lb", "type": "loadbalance", "connectors": ["c0", "c1"], "algo": "rr"});
        let state = match make_state(&recs, &[lb]).await {
            Ok(s) => s,
            Err(e) => {
                out.violation("harness: could not build state".into(), serde_json::json!(e.to_string()));
                break;
            }
        };
        let reqs: Vec<Req> = (0..8).map(|_| rand_req(&mut rng)).collect();
        let nrules = if li % 50 == 0 { 0 } else { rng.below(13) };
        let mut specs: Vec<RuleSpec> = vec![];
        for _ in 0..nrules {
            let target = (*rng.pick(&["c0", "c0", "c1", "c2", "c3", "lb", "deny", "deny"])).to_string();
            let pick = rng.below(reqs.len());
            let filter = if rng.chance(1, 6) { None } else { Some(gen_filter(&mut rng, &reqs[pick], 2)) };
            specs.push(RuleSpec { filter, target });
            if rng.chance(1, 10) && !specs.is_empty() {
                // duplicate an earlier rule
                let k = rng.below(specs.len());
                let d = RuleSpec { filter: specs[k].filter.clone(), target: specs[k].target.clone() };
                specs.push(d);
            }
        }
        let json_rules: Vec<serde_json::Value> = specs
            .iter()
            .map(|s| match &s.filter {
                Some(f) => serde_json::json!({"filter": f.text(), "target": s.target}),
                None => serde_json::json!({"target": s.target}),
            })
            .collect();
        let list_text = serde_json::to_string(&json_rules).unwrap();
        let loaded = match rules_from(&json_rules) {
            Ok(r) => state.set_rules(r).await,
            Err(e) => Err(e),
        };
        if let Err(e) = loaded {
            out.case();
            out.violation(
                "a rule list made only of documented, well-typed filters is rejected at load".into(),
                serde_json::json!({"rules": json_rules, "error": format!("{} / {:?}", e, e.cause.as_ref().map(|c| c.to_string()))}),
            );
            continue;
        }
        for req in &reqs {
            out.case();
            // reference router
            let mut expect: Option<String> = None; // None = refused
            let mut evaluated = 0;
            let mut why = "no rule matched";
            for s in &specs {
                let m = match &s.filter {
                    None => Tri::T,
                    Some(f) => {
                        evaluated += 1;
                        f.eval(req)
                    }
                };
                if let Some(Flt::Atom(_, Tri3::CidrSource(_) | Tri3::CidrTarget(_))) = &s.filter {
                    cidr_checks += 1;
                }
                if m == Tri::T {
                    if s.target == "deny" {
                        why = "explicit deny";
                    } else {
                        let feats: Vec<Feature> = match s.target.as_str() {
                            "lb" => vec![Feature::TcpForward],
                            n => recs.iter().find(|r| r.name == n).unwrap().features.clone(),
                        };
                        if feats.contains(&req.feature) {
                            expect = Some(s.target.clone());
                        } else {
                            why = "selected upstream lacks the feature";
                        }
                    }
                    break;
                }
            }
            let ctx = make_ctx(&state, req).await;
            let id = ctx.read().await.props().id;
            let ran = run_budget(crate::process_request(ctx.clone(), state.clone()), 500_000);
            match ran {
                Ran::Panicked(p) => {
                    out.violation(format!("process_request: {}", p.sig()), serde_json::json!({"rules": json_rules, "request": format!("{:?}", req)}));
                    continue;
                }
                Ran::Hung => {
                    out.inconclusive += 1;
                    continue;
                }
                Ran::Done(()) => {}
            }
            let called: Vec<String> = recs.iter().filter(|r| r.take().contains(&id)).map(|r| r.name.clone()).collect();
            let props = ctx.read().await.props().clone();
            let recorded = props.connector.clone();
            let witness = |what: &str| serde_json::json!({"what": what, "rules": json_rules, "request": {"listener": req.listener, "source": req.source.to_string(), "target": req.target.to_string(), "feature": feature_name(req.feature)}, "expected": expect, "reason_if_refused": why, "connect_called_on": called, "recorded_connector": recorded, "error": props.error});
            match &expect {
                None => {
                    if !called.is_empty() {
                        out.violation(format!("refused request reached a connector ({})", why), witness("connect() ran although the reference router refuses"));
                    } else if props.state.last().map(|s| format!("{:?}", s)).map(|s| s.contains("ErrorOccured")) != Some(true) {
                        out.violation("refused request is not recorded as an error".into(), witness("no ErrorOccured state"));
                    }
                    *decisions.entry(format!("refused: {}", why)).or_default() += 1;
                }
                Some(t) => {
                    let want_members: Vec<&str> = if t == "lb" { vec!["c0", "c1"] } else { vec![t.as_str()] };
                    if called.len() != 1 || !want_members.contains(&called[0].as_str()) {
                        let kind = if called.is_empty() { "allowed request was refused" } else { "request served by another upstream than the first matching rule names" };
                        out.violation(kind.to_string(), witness(kind));
                    } else if recorded.as_deref() != Some(called[0].as_str()) {
                        out.violation("recorded connector differs from the one used".into(), witness("props.connector"));
                    }
                    *decisions.entry(format!("allowed via {}", if t == "lb" { "lb" } else { "connector" })).or_default() += 1;
                }
            }
            let _ = ContextState::Connected;
            if evaluated > 0 {
                out.nontrivial(&(&list_text, format!("{:?}", req)));
            }
            if out.want_sample() && evaluated >= 3 {
                out.sample(serde_json::json!({"rules": json_rules, "request": format!("{:?}", req), "expected": expect, "connect_called_on": called}));
            }
        }
    }
    // ---- cidr_match vs bitwise containment on a dense grid, through the real filter machinery
    {
        let recs = vec![RecConnector::new("c0", &all_features)];
        let state = make_state(&recs, &[]).await.unwrap();
        let n = args.n(8000, 100_000);
        for _ in 0..n {
            let v6 = rng.chance(1, 2);
            let ip: IpAddr = if v6 {
                match rng.below(4) {
                    0 => "::1".parse().unwrap(),
                    1 => format!("::ffff:{}.{}.{}.{}", rng.below(256), rng.below(256), rng.below(256), rng.below(256)).parse().unwrap(),
                    2 => "::".parse().unwrap(),
                    _ => std::net::Ipv6Addr::from(((rng.next() as u128) << 64) | rng.next() as u128).into(),
                }
            } else {
                std::net::Ipv4Addr::from(rng.next() as u32).into()
            };
            // cidr near the address (inside / just outside) or unrelated, either family
            let cidr = match rng.below(4) {
                0 => canonical_cidr(&mut rng, Some(ip)),
                1 => {
                    // flip one bit inside the prefix
                    let c = canonical_cidr(&mut rng, Some(ip));
                    let (net, pl) = c.split_once('/').unwrap();
                    let pl: u32 = pl.parse().unwrap();
                    if pl == 0 { c } else {
                        match net.parse::<IpAddr>().unwrap() {
                            IpAddr::V4(a) => format!("{}/{}", std::net::Ipv4Addr::from(u32::from(a) ^ (1 << (32 - 1 - rng.below(pl as usize) as u32))), pl),
                            IpAddr::V6(a) => format!("{}/{}", std::net::Ipv6Addr::from(u128::from(a) ^ (1u128 << (128 - 1 - rng.below(pl as usize) as u32))), pl),
                        }
                    }
                }
                2 => canonical_cidr(&mut rng, None),
                _ => (*rng.pick(&["0.0.0.0/0", "::/0", "::/96", "::ffff:0:0/96", "127.0.0.0/8", "::1/128", "0.0.0.0/8", "10.0.0.0/8"])).to_string(),
            };
            let want = cidr_contains(&ip, &cidr);
            let rules = vec![serde_json::json!({"filter": format!("cidr_match(request.target.host, \"{}\")", cidr), "target": "c0"})];
            out.case();
            cidr_checks += 1;
            if let Err(e) = match rules_from(&rules) { Ok(r) => state.set_rules(r).await, Err(e) => Err(e) } {
                out.violation("cidr rule rejected".into(), serde_json::json!({"cidr": cidr, "error": e.to_string()}));
                continue;
            }
            let req = Req { listener: "l".into(), source: "127.0.0.1:1".parse().unwrap(), target: TargetAddress::SocketAddr(std::net::SocketAddr::new(ip, 80)), feature: Feature::TcpForward };
            let ctx = make_ctx(&state, &req).await;
            if let Ran::Done(()) = run_budget(crate::process_request(ctx.clone(), state.clone()), 100_000) {
                let got = recs[0].take().len() == 1;
                out.nontrivial(&(ip, &cidr));
                if got != want {
                    out.violation(
                        "cidr_match disagrees with standard CIDR containment".into(),
                        serde_json::json!({"ip": ip.to_string(), "cidr": cidr, "cidr_match": got, "containment": want}),
                    );
                }
            }
        }
    }
    out.set("decisions", serde_json::json!(decisions));
    out.set("cidr_evaluations", serde_json::json!(cidr_checks));
    out.finish();
}
