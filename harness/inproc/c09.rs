// C09 — the parser accepts the documented grammar and precedence.
// Oracle: milu/readme.md operator table transcribed below (spellings, precedence, associativity);
// expected tree = the tree the generator built, with the stdlib constructors; the printer puts only
// the parentheses the table makes necessary. parse(minimal) == parse(full) == expected.
use super::util::*;
use milu::parser::parse;
use milu::script::stdlib::*;
use milu::script::{Call, Value};
use std::sync::Arc;

#[derive(Clone, Debug, Hash)]
enum E {
    Id(&'static str),
    Int(i64),
    Str(&'static str),
    Bool(bool),
    Tpl, // `p=${x}`
    Un(usize, Box<E>),
    Bin(usize, usize, Box<E>, Box<E>), // op index, spelling index
    Access(Box<E>, &'static str),
    AccessInt(Box<E>, i64),
    Index(Box<E>, Box<E>),
    Call(Box<E>, Vec<E>),
    Tern(Box<E>, Box<E>, Box<E>),
    If(Box<E>, Box<E>, Box<E>),
    Let(Vec<(&'static str, E)>, Box<E>),
    Array(Vec<E>),
    Tuple(Vec<E>),
}

struct BinOp {
    spell: &'static [&'static str],
    prec: u32, // README precedence * 10
    mk: fn(Value, Value) -> Value,
    name: &'static str,
}

macro_rules! mk2 {
    ($t:ident) => {
        |a, b| $t::make_call(a, b).into()
    };
}

// README table, binary operators (all left-to-right)
static BIN: &[BinOp] = &[
    BinOp { spell: &["*"], prec: 60, mk: mk2!(Multiply), name: "mul" },
    BinOp { spell: &["/"], prec: 60, mk: mk2!(Divide), name: "div" },
    BinOp { spell: &["%"], prec: 60, mk: mk2!(Mod), name: "mod" },
    BinOp { spell: &["+"], prec: 50, mk: mk2!(Plus), name: "plus" },
    BinOp { spell: &["-"], prec: 50, mk: mk2!(Minus), name: "minus" },
    BinOp { spell: &["<<"], prec: 41, mk: mk2!(ShiftLeft), name: "shl" },
    BinOp { spell: &[">>"], prec: 41, mk: mk2!(ShiftRight), name: "shr" },
    BinOp { spell: &[">>>"], prec: 41, mk: mk2!(ShiftRightUnsigned), name: "shru" },
    BinOp { spell: &["<"], prec: 40, mk: mk2!(Lesser), name: "lt" },
    BinOp { spell: &["<="], prec: 40, mk: mk2!(LesserOrEqual), name: "le" },
    BinOp { spell: &[">"], prec: 40, mk: mk2!(Greater), name: "gt" },
    BinOp { spell: &[">="], prec: 40, mk: mk2!(GreaterOrEqual), name: "ge" },
    BinOp { spell: &["=="], prec: 30, mk: mk2!(Equal), name: "eq" },
    BinOp { spell: &["!="], prec: 30, mk: mk2!(NotEqual), name: "ne" },
    BinOp { spell: &["=~"], prec: 30, mk: mk2!(Like), name: "like" },
    BinOp { spell: &["!~"], prec: 30, mk: mk2!(NotLike), name: "notlike" },
    BinOp { spell: &["_:"], prec: 30, mk: mk2!(IsMemberOf), name: "memberof" },
    BinOp { spell: &["&"], prec: 25, mk: mk2!(BitAnd), name: "band" },
    BinOp { spell: &["^"], prec: 24, mk: mk2!(BitXor), name: "bxor" },
    BinOp { spell: &["|"], prec: 23, mk: mk2!(BitOr), name: "bor" },
    BinOp { spell: &["&&", "and"], prec: 20, mk: mk2!(And), name: "and" },
    BinOp { spell: &["^^", "xor"], prec: 15, mk: mk2!(Xor), name: "xor" },
    BinOp { spell: &["||", "or"], prec: 10, mk: mk2!(Or), name: "or" },
];

struct UnOp {
    spell: &'static str,
    mk: fn(Value) -> Value,
}
static UN: &[UnOp] = &[
    UnOp { spell: "!", mk: |a| Not::make_call(a).into() },
    UnOp { spell: "~", mk: |a| BitNot::make_call(a).into() },
    UnOp { spell: "-", mk: |a| Negative::make_call(a).into() },
];

const P_ATOM: u32 = 990;
const P_POSTFIX: u32 = 80;
const P_UNARY: u32 = 70;
const P_ZERO: u32 = 0;

impl E {
    fn prec(&self) -> u32 {
        match self {
            E::Un(..) => P_UNARY,
            E::Bin(op, ..) => BIN[*op].prec,
            E::Access(..) | E::AccessInt(..) | E::Index(..) | E::Call(..) => P_POSTFIX,
            E::Tern(..) | E::If(..) | E::Let(..) => P_ZERO,
            _ => P_ATOM,
        }
    }
    fn to_value(&self) -> Value {
        match self {
            E::Id(s) => Value::Identifier(s.to_string()),
            E::Int(i) => Value::Integer(*i),
            E::Str(s) => Value::String(s.to_string()),
            E::Bool(b) => Value::Boolean(*b),
            E::Tpl => StringConcat::make_call(
                vec![Value::String("p=".into()), Value::Identifier("x".into())].into(),
            )
            .into(),
            E::Un(op, a) => (UN[*op].mk)(a.to_value()),
            E::Bin(op, _, a, b) => (BIN[*op].mk)(a.to_value(), b.to_value()),
            E::Access(a, n) => Access::make_call(a.to_value(), Value::Identifier(n.to_string())).into(),
            E::AccessInt(a, n) => Access::make_call(a.to_value(), Value::Integer(*n)).into(),
            E::Index(a, i) => Index::make_call(a.to_value(), i.to_value()).into(),
            E::Call(f, args) => {
                let mut v = vec![f.to_value()];
                v.extend(args.iter().map(|a| a.to_value()));
                Call::new(v).into()
            }
            E::Tern(c, y, n) | E::If(c, y, n) => {
                If::make_call(c.to_value(), y.to_value(), n.to_value()).into()
            }
            E::Let(vars, body) => {
                let vars: Vec<Value> = vars
                    .iter()
                    .map(|(n, v)| {
                        Value::Tuple(Arc::new(vec![Value::Identifier(n.to_string()), v.to_value()]))
                    })
                    .collect();
                Scope::make_call(vars.into(), body.to_value()).into()
            }
            E::Array(v) => Value::Array(Arc::new(v.iter().map(|x| x.to_value()).collect())),
            E::Tuple(v) => Value::Tuple(Arc::new(v.iter().map(|x| x.to_value()).collect())),
        }
    }

    // emit tokens; `full` = parenthesise every sub-expression
    fn emit(&self, out: &mut Vec<String>, full: bool) {
        let sub = |e: &E, need: bool, out: &mut Vec<String>| {
            if need || (full && !matches!(e, E::Id(_) | E::Int(_) | E::Str(_) | E::Bool(_) | E::Tpl)) {
                out.push("(".into());
                e.emit(out, full);
                out.push(")".into());
            } else {
                e.emit(out, full);
            }
        };
        match self {
            E::Id(s) => out.push(s.to_string()),
            E::Int(i) => out.push(i.to_string()),
            E::Str(s) => out.push(format!("\"{}\"", s)),
            E::Bool(b) => out.push(b.to_string()),
            E::Tpl => out.push("`p=${x}`".into()),
            E::Un(op, a) => {
                out.push(UN[*op].spell.into());
                sub(a, a.prec() < P_UNARY, out);
            }
            E::Bin(op, sp, a, b) => {
                let p = BIN[*op].prec;
                sub(a, a.prec() < p, out);
                out.push(BIN[*op].spell[*sp].into());
                sub(b, b.prec() <= p, out);
            }
            E::Access(a, n) => {
                sub(a, a.prec() < P_POSTFIX, out);
                out.push(".".into());
                out.push(n.to_string());
            }
            E::AccessInt(a, n) => {
                sub(a, a.prec() < P_POSTFIX, out);
                out.push(".".into());
                out.push(n.to_string());
            }
            E::Index(a, i) => {
                sub(a, a.prec() < P_POSTFIX, out);
                out.push("[".into());
                sub(i, false, out);
                out.push("]".into());
            }
            E::Call(f, args) => {
                sub(f, f.prec() < P_POSTFIX, out);
                out.push("(".into());
                for (k, a) in args.iter().enumerate() {
                    if k > 0 {
                        out.push(",".into());
                    }
                    sub(a, false, out);
                }
                out.push(")".into());
            }
            E::Tern(c, y, n) => {
                // condition sits at precedence 1 (above ?:), branches are full expressions
                sub(c, c.prec() < 10, out);
                out.push("?".into());
                sub(y, false, out);
                out.push(":".into());
                sub(n, false, out);
            }
            E::If(c, y, n) => {
                out.push("if".into());
                sub(c, false, out);
                out.push("then".into());
                sub(y, false, out);
                out.push("else".into());
                sub(n, false, out);
            }
            E::Let(vars, body) => {
                out.push("let".into());
                for (k, (n, v)) in vars.iter().enumerate() {
                    if k > 0 {
                        out.push(";".into());
                    }
                    out.push(n.to_string());
                    out.push("=".into());
                    sub(v, false, out);
                }
                out.push("in".into());
                sub(body, false, out);
            }
            E::Array(v) => {
                out.push("[".into());
                for (k, a) in v.iter().enumerate() {
                    if k > 0 {
                        out.push(",".into());
                    }
                    sub(a, false, out);
                }
                out.push("]".into());
            }
            E::Tuple(v) => {
                out.push("(".into());
                for a in v.iter() {
                    sub(a, false, out);
                    out.push(",".into());
                }
                out.push(")".into());
            }
        }
    }
    fn tokens(&self, full: bool) -> Vec<String> {
        let mut v = vec![];
        self.emit(&mut v, full);
        v
    }
}

fn is_word(c: char) -> bool {
    c.is_ascii_alphanumeric() || c == '_'
}

// can the two tokens be written with nothing between them without changing the token sequence?
fn can_glue(l: &str, r: &str) -> bool {
    let lc = l.chars().last().unwrap();
    let rc = r.chars().next().unwrap();
    let lw = is_word(lc) || l == "_:";
    let rw = is_word(rc);
    if lw && rw {
        return false;
    }
    let quote = |c: char| c == '"' || c == '`';
    let bracket = |c: char| "()[],;".contains(c);
    if quote(lc) || quote(rc) || bracket(lc) || bracket(rc) {
        // `a(` would turn grouping into a call only when the left token ends an operand; the printer
        // never emits "(" directly after an operand except for a call, so gluing keeps meaning
        return true;
    }
    if lw != rw {
        // word next to punctuation; keep '.' away from digits
        if (lc == '.' && rc.is_ascii_digit()) || (rc == '.' && lc.is_ascii_digit()) {
            return false;
        }
        return true;
    }
    false // punctuation next to punctuation could fuse into another operator
}

fn join(tokens: &[String], filler: &dyn Fn(usize) -> Option<&'static str>) -> String {
    let mut s = String::new();
    for (i, t) in tokens.iter().enumerate() {
        if i > 0 {
            match filler(i) {
                Some(f) => s.push_str(f),
                None => {
                    if !can_glue(&tokens[i - 1], t) {
                        s.push(' ');
                    }
                }
            }
        }
        s.push_str(t);
    }
    s
}

fn spaced(tokens: &[String]) -> String {
    tokens.join(" ")
}

static FILLERS: &[(&str, &str)] = &[
    ("space", " "),
    ("tab", "\t"),
    ("lf", "\n"),
    ("crlf", "\r\n"),
    ("empty-block-comment", "/**/"),
    ("block-comment", " /* x */ "),
    ("multiline-block-comment", "/* a\n b */"),
    ("eol-comment", " # x\n"),
    ("eol-comment-crlf", " # x\r\n"),
    ("empty-eol-comment", " #\n"),
    ("mixed", " \t/* c */\n# d\n  "),
    ("two-eol-comments", "# a\n# b\n"),
    ("two-eol-comments-indented", "  # a\n  # b\n  "),
    ("two-block-comments", "/* a */ /* b */"),
    ("adjacent-block-comments", "/*a*//*b*/"),
    ("eol-then-block-comment", "# a\n /* b */"),
    ("eol-comment-cr", " # x\r"),
    ("eol-comment-cr-cr", " # x\r\r# y\r"),
    ("non-ascii-comment", "/* \u{e9}\u{6f22} */ # \u{1f600}\n"),
];

fn leaf(r: &mut Rng) -> E {
    match r.below(8) {
        0 => E::Id("a"),
        1 => E::Id("b"),
        2 => E::Id("x"),
        3 => E::Int(r.below(100) as i64),
        4 => E::Str("s t"),
        5 => E::Bool(r.chance(1, 2)),
        6 => E::Tpl,
        _ => E::Id("c_1"),
    }
}

fn gen(r: &mut Rng, depth: usize) -> E {
    if depth == 0 || r.chance(1, 5) {
        return leaf(r);
    }
    let d = depth - 1;
    match r.below(20) {
        0..=9 => {
            let op = r.below(BIN.len());
            let sp = r.below(BIN[op].spell.len());
            E::Bin(op, sp, Box::new(gen(r, d)), Box::new(gen(r, d)))
        }
        10 | 11 => E::Un(r.below(UN.len()), Box::new(gen(r, d))),
        12 => E::Access(Box::new(gen(r, d)), "host"),
        13 => E::AccessInt(Box::new(gen(r, d)), r.below(3) as i64),
        14 => E::Index(Box::new(gen(r, d)), Box::new(gen(r, d))),
        15 => {
            let n = r.below(3);
            E::Call(Box::new(gen(r, d)), (0..n).map(|_| gen(r, d)).collect())
        }
        16 => E::Tern(Box::new(gen(r, d)), Box::new(gen(r, d)), Box::new(gen(r, d))),
        17 => E::If(Box::new(gen(r, d)), Box::new(gen(r, d)), Box::new(gen(r, d))),
        18 => {
            let n = 1 + r.below(2);
            let names = ["v", "w"];
            E::Let(
                (0..n).map(|i| (names[i], gen(r, d))).collect(),
                Box::new(gen(r, d)),
            )
        }
        _ => {
            let n = r.below(3);
            if r.chance(1, 2) {
                E::Array((0..n).map(|_| gen(r, d)).collect())
            } else {
                let n = if n == 1 { 2 } else { n };
                E::Tuple((0..n).map(|_| gen(r, d)).collect())
            }
        }
    }
}

enum Res {
    Ok,
    Syntax(String),
    Tree(String),
    Panic(Panicked),
}

fn check(text: &str, expect: &Value) -> Res {
    match guard(|| parse(text)) {
        Err(p) => Res::Panic(p),
        Ok(Err(e)) => Res::Syntax(e.to_string().chars().take(200).collect()),
        Ok(Ok(v)) => {
            if &v == expect {
                Res::Ok
            } else {
                Res::Tree(format!("{}", v).chars().take(300).collect())
            }
        }
    }
}

fn report(out: &mut Out, sig: String, text: &str, expect: &Value, r: Res) {
    let (kind, detail) = match r {
        Res::Ok => return,
        Res::Syntax(e) => ("syntax-error", e),
        Res::Tree(t) => ("tree-mismatch", t),
        Res::Panic(p) => ("panic", p.sig()),
    };
    out.violation(
        format!("{} [{}]", sig, kind),
        serde_json::json!({"text": text, "expected_tree": format!("{}", expect).chars().take(300).collect::<String>(), "got": detail}),
    );
}

pub fn run(args: &Args) {
    let mut out = Out::new(
        "C09",
        "c09",
        "README operator table -> every spelling alone, all ordered pairs and triples of binary operators in every tree shape, unary/postfix mixes, random trees to depth 6 printed with minimal parentheses (and fully parenthesised) and parsed back; filler at every token boundary. distinct = distinct source texts whose tree has >= 1 operator",
    );
    let mut rng = Rng::new(args.seed);
    let a = || Box::new(E::Id("a"));
    let b = || Box::new(E::Id("b"));
    let c = || Box::new(E::Id("c"));
    let d = || Box::new(E::Id("d"));

    // 1. every operator / spelling alone
    let mut parses_alone = vec![vec![false; 2]; BIN.len()];
    for (i, op) in BIN.iter().enumerate() {
        for (s, sp) in op.spell.iter().enumerate() {
            let e = E::Bin(i, s, a(), b());
            let expect = e.to_value();
            let mut ok = true;
            for text in [spaced(&e.tokens(false)), join(&e.tokens(false), &|_| None)] {
                out.case();
                out.nontrivial(&text);
                let r = check(&text, &expect);
                if !matches!(r, Res::Ok) {
                    ok = false;
                }
                report(&mut out, format!("op \"{}\" alone", sp), &text, &expect, r);
            }
            parses_alone[i][s] = ok;
        }
    }
    for (i, op) in UN.iter().enumerate() {
        for inner in [E::Id("a"), E::Un(i, a()), E::Access(a(), "b"), E::Call(a(), vec![E::Id("b")])] {
            let e = E::Un(i, Box::new(inner));
            let expect = e.to_value();
            let text = spaced(&e.tokens(false));
            out.case();
            out.nontrivial(&text);
            let r = check(&text, &expect);
            report(&mut out, format!("unary \"{}\"", op.spell), &text, &expect, r);
        }
    }
    let constructs: Vec<(&str, E)> = vec![
        ("access", E::Access(a(), "b")),
        ("access-int", E::AccessInt(Box::new(E::Tuple(vec![E::Int(1), E::Int(2)])), 1)),
        ("index", E::Index(a(), b())),
        ("call0", E::Call(a(), vec![])),
        ("call2", E::Call(a(), vec![E::Id("b"), E::Id("c")])),
        ("chain", E::Index(Box::new(E::Access(Box::new(E::Call(a(), vec![E::Id("b")])), "c")), d())),
        ("ternary", E::Tern(a(), b(), c())),
        ("ternary-right-assoc", E::Tern(a(), b(), Box::new(E::Tern(c(), d(), a())))),
        ("ternary-in-cond", E::Tern(Box::new(E::Tern(a(), b(), c())), d(), a())),
        ("ternary-in-yes", E::Tern(a(), Box::new(E::Tern(b(), c(), d())), a())),
        ("if", E::If(a(), b(), c())),
        ("if-in-else", E::If(a(), b(), Box::new(E::If(c(), d(), a())))),
        ("if-in-cond", E::If(Box::new(E::If(a(), b(), c())), d(), a())),
        ("if-in-then", E::If(a(), Box::new(E::If(b(), c(), d())), a())),
        ("let1", E::Let(vec![("v", E::Int(1))], Box::new(E::Id("v")))),
        ("let2", E::Let(vec![("v", E::Int(1)), ("w", E::Int(2))], Box::new(E::Bin(3, 0, Box::new(E::Id("v")), Box::new(E::Id("w")))))),
        ("let-in-let", E::Let(vec![("v", E::Let(vec![("w", E::Int(1))], Box::new(E::Id("w"))))], Box::new(E::Id("v")))),
        ("array", E::Array(vec![E::Int(1), E::Int(2)])),
        ("tuple", E::Tuple(vec![E::Int(1), E::Str("s t")])),
        ("template", E::Tpl),
        ("group-operand-if", E::Bin(3, 0, Box::new(E::Int(1)), Box::new(E::If(a(), b(), c())))),
        ("group-operand-let", E::Bin(3, 0, Box::new(E::Let(vec![("v", E::Int(1))], Box::new(E::Id("v")))), Box::new(E::Int(1)))),
        ("unary-on-group", E::Un(2, Box::new(E::Bin(3, 0, a(), b())))),
        ("postfix-on-group", E::Access(Box::new(E::Bin(3, 0, a(), b())), "host")),
        ("postfix-on-unary", E::Access(Box::new(E::Un(2, a())), "host")),
    ];
    for (name, e) in &constructs {
        let expect = e.to_value();
        for full in [false, true] {
            let text = spaced(&e.tokens(full));
            out.case();
            out.nontrivial(&text);
            let r = check(&text, &expect);
            report(&mut out, format!("construct {}", name), &text, &expect, r);
        }
    }
    // binary operator against each unary prefix / postfix on either operand
    for (i, op) in BIN.iter().enumerate() {
        if !parses_alone[i][0] {
            continue;
        }
        let wraps: Vec<Box<dyn Fn(Box<E>) -> E>> = vec![
            Box::new(|x| E::Un(0, x)),
            Box::new(|x| E::Un(1, x)),
            Box::new(|x| E::Un(2, x)),
            Box::new(|x| E::Access(x, "host")),
            Box::new(|x| E::Index(x, Box::new(E::Int(0)))),
            Box::new(|x| E::Call(x, vec![E::Id("d")])),
        ];
        for (w, wrap) in wraps.iter().enumerate() {
            for e in [
                E::Bin(i, 0, Box::new(wrap(a())), b()),
                E::Bin(i, 0, a(), Box::new(wrap(b()))),
                wrap(Box::new(E::Bin(i, 0, a(), b()))),
            ] {
                let expect = e.to_value();
                for text in [spaced(&e.tokens(false)), join(&e.tokens(false), &|_| None), spaced(&e.tokens(true))] {
                    out.case();
                    out.nontrivial(&text);
                    let r = check(&text, &expect);
                    report(&mut out, format!("op \"{}\" with unary/postfix #{}", op.spell[0], w), &text, &expect, r);
                }
            }
        }
        // against the zero-precedence constructs
        for e in [
            E::Tern(Box::new(E::Bin(i, 0, a(), b())), c(), d()),
            E::Tern(a(), Box::new(E::Bin(i, 0, b(), c())), d()),
            E::Tern(a(), b(), Box::new(E::Bin(i, 0, c(), d()))),
            E::Bin(i, 0, Box::new(E::Tern(a(), b(), c())), d()),
            E::Bin(i, 0, a(), Box::new(E::Tern(b(), c(), d()))),
            E::If(Box::new(E::Bin(i, 0, a(), b())), c(), Box::new(E::Bin(i, 0, c(), d()))),
            E::Bin(i, 0, a(), Box::new(E::If(b(), c(), d()))),
            E::Let(vec![("v", E::Bin(i, 0, a(), b()))], Box::new(E::Bin(i, 0, E::Id("v").into(), c()))),
        ] {
            let expect = e.to_value();
            let text = spaced(&e.tokens(false));
            out.case();
            out.nontrivial(&text);
            let r = check(&text, &expect);
            report(&mut out, format!("op \"{}\" with ?:/if/let", op.spell[0]), &text, &expect, r);
        }
    }

    // 2. exhaustive ordered pairs and triples, all tree shapes, every spelling combination for pairs
    let mut pairs = 0u64;
    for i in 0..BIN.len() {
        for j in 0..BIN.len() {
            for si in 0..BIN[i].spell.len() {
                for sj in 0..BIN[j].spell.len() {
                    if !parses_alone[i][si] || !parses_alone[j][sj] {
                        continue;
                    }
                    let shapes = [
                        E::Bin(j, sj, Box::new(E::Bin(i, si, a(), b())), c()),
                        E::Bin(i, si, a(), Box::new(E::Bin(j, sj, b(), c()))),
                    ];
                    for e in shapes {
                        let expect = e.to_value();
                        for text in [spaced(&e.tokens(false)), spaced(&e.tokens(true)), join(&e.tokens(false), &|_| None)] {
                            out.case();
                            pairs += 1;
                            out.nontrivial(&text);
                            let r = check(&text, &expect);
                            report(&mut out, format!("pair \"{}\" \"{}\"", BIN[i].spell[si], BIN[j].spell[sj]), &text, &expect, r);
                        }
                    }
                }
            }
        }
    }
    out.set("pairs_checked", serde_json::json!(pairs));
    let pa = &parses_alone;
    parallel(&mut out, |wi, wn, out| {
    let parses_alone = pa;
    let mut triples = 0u64;
    for i in 0..BIN.len() {
        if i % wn != wi {
            continue;
        }
        for j in 0..BIN.len() {
            for k in 0..BIN.len() {
                if !parses_alone[i][0] || !parses_alone[j][0] || !parses_alone[k][0] {
                    continue;
                }
                let o = |op: usize, l: Box<E>, r: Box<E>| Box::new(E::Bin(op, 0, l, r));
                // the five binary tree shapes over a i b j c k d
                let shapes = [
                    o(k, o(j, o(i, a(), b()), c()), d()),
                    o(k, o(i, a(), o(j, b(), c())), d()),
                    o(j, o(i, a(), b()), o(k, c(), d())),
                    o(i, a(), o(k, o(j, b(), c()), d())),
                    o(i, a(), o(j, b(), o(k, c(), d()))),
                ];
                for e in shapes {
                    let expect = e.to_value();
                    let text = spaced(&e.tokens(false));
                    out.case();
                    triples += 1;
                    out.nontrivial(&text);
                    let r = check(&text, &expect);
                    report(out, format!("triple \"{}\" \"{}\" \"{}\"", BIN[i].spell[0], BIN[j].spell[0], BIN[k].spell[0]), &text, &expect, r);
                }
            }
        }
    }
    out.count("triples_checked", triples);
    });

    // 3. random deeper trees, minimal vs full parentheses, glued and spaced
    let uses_unparsable = |e: &E, pa: &Vec<Vec<bool>>| -> bool {
        fn walk(e: &E, pa: &Vec<Vec<bool>>) -> bool {
            match e {
                E::Bin(op, sp, a, b) => !pa[*op][*sp] || walk(a, pa) || walk(b, pa),
                E::Un(_, a) | E::Access(a, _) | E::AccessInt(a, _) => walk(a, pa),
                E::Index(a, b) => walk(a, pa) || walk(b, pa),
                E::Call(f, v) => walk(f, pa) || v.iter().any(|x| walk(x, pa)),
                E::Tern(a, b, c) | E::If(a, b, c) => walk(a, pa) || walk(b, pa) || walk(c, pa),
                E::Let(v, b) => v.iter().any(|(_, x)| walk(x, pa)) || walk(b, pa),
                E::Array(v) | E::Tuple(v) => v.iter().any(|x| walk(x, pa)),
                _ => false,
            }
        }
        walk(e, pa)
    };
    let n_random = args.n(6_000, 400_000);
    let seeds: Vec<u64> = (0..n_workers()).map(|_| rng.next()).collect();
    parallel(&mut out, |wi, wn, out| {
    let mut rng = Rng::new(seeds[wi]);
    let mut skipped_unparsable = 0u64;
    for _ in 0..(n_random / wn + 1) {
        let depth = 1 + rng.below(6);
        let e = gen(&mut rng, depth);
        if uses_unparsable(&e, &parses_alone) {
            skipped_unparsable += 1;
            continue; // already reported once under "op alone"
        }
        let expect = e.to_value();
        let toks = e.tokens(false);
        for (k, text) in [spaced(&toks), join(&toks, &|_| None), spaced(&e.tokens(true))].iter().enumerate() {
            out.case();
            out.nontrivial(text);
            if out.want_sample() && depth >= 3 && k == 0 {
                out.sample(serde_json::json!({"text": text, "tree": format!("{}", expect).chars().take(200).collect::<String>()}));
            }
            let r = check(text, &expect);
            report(out, format!("random tree form#{}", k), text, &expect, r);
        }
        // 4. filler at token boundaries
        let nb = toks.len().saturating_sub(1);
        if nb == 0 {
            continue;
        }
        let reps = if args.thorough { 4 } else { 2 };
        for _ in 0..reps {
            let (fname, f) = *rng.pick(FILLERS);
            let at = 1 + rng.below(nb);
            let text = join(&toks, &|i| if i == at { Some(f) } else { Some(" ") });
            out.case();
            out.nontrivial(&text);
            let r = check(&text, &expect);
            report(out, format!("filler {}", fname), &text, &expect, r);
        }
        // all boundaries at once
        let (fname, f) = *rng.pick(FILLERS);
        let text = join(&toks, &|_| Some(f));
        out.case();
        out.nontrivial(&text);
        let r = check(&text, &expect);
        report(out, format!("filler {}", fname), &text, &expect, r);
    }
    out.count("random_trees", (n_random / wn + 1) as u64);
    out.count("random_trees_skipped_unparsable_operator", skipped_unparsable);
    });
    // every filler at every boundary of a fixed small set of token lists (exhaustive part)
    let fixed = [
        E::Bin(3, 0, a(), Box::new(E::Bin(0, 0, b(), c()))),
        E::Index(Box::new(E::Access(Box::new(E::Call(a(), vec![E::Id("b"), E::Int(1)])), "c")), d()),
        E::If(a(), b(), c()),
        E::Tern(a(), b(), c()),
        E::Let(vec![("v", E::Int(1)), ("w", E::Int(2))], Box::new(E::Id("v"))),
        E::Array(vec![E::Un(0, a()), E::Str("s t"), E::Tpl]),
        E::Tuple(vec![E::Int(1), E::Int(2)]),
        E::Bin(20, 1, a(), Box::new(E::Bin(22, 1, b(), c()))),
        E::Bin(16, 0, a(), Box::new(E::Array(vec![E::Int(1)]))),
    ];
    let mut filler_exh = 0u64;
    for e in &fixed {
        let expect = e.to_value();
        let toks = e.tokens(false);
        for (fname, f) in FILLERS {
            for at in 1..toks.len() {
                let text = join(&toks, &|i| if i == at { Some(*f) } else { Some(" ") });
                out.case();
                filler_exh += 1;
                out.nontrivial(&text);
                let r = check(&text, &expect);
                report(&mut out, format!("filler {}", fname), &text, &expect, r);
            }
        }
    }
    out.set("filler_boundaries_exhaustive", serde_json::json!(filler_exh));
    out.finish();
}
