// C03 — destination integrity through every protocol re-encoding.
// Three views of one request: D0 = (host bytes, port) the harness put on the wire in the inbound protocol;
// T1 = TargetAddress the real inbound decoder produced (what the rules see); D2 = what an independent,
// strict reference parser of the OUTGOING protocol extracts from the bytes the real encoder wrote.
// Verdict: refused, or (T1 == D0 and D2 == D0 with no extra protocol fields).
use super::util::*;
use crate::common::frames::Frame;
use crate::common::h11c::h11c_connect;
use crate::common::http::HttpRequest;
use crate::common::socks::frames::{decode_socks_frame, encode_socks_frame};
use crate::common::socks::{NoAuth, PasswordAuth, SocksRequest};
use crate::context::{make_buffered_stream, Feature, TargetAddress};
use bytes::Bytes;
use std::net::IpAddr;
use std::sync::Arc;
use tokio::io::BufReader;

#[derive(Clone, Debug, PartialEq, Eq, Hash)]
struct Dest {
    host: Vec<u8>,
    port: u16,
}

fn canon(host: &[u8]) -> Result<IpAddr, Vec<u8>> {
    // IP literals compare as addresses (bracketed or not), anything else byte for byte
    if let Ok(s) = std::str::from_utf8(host) {
        let t = s.strip_prefix('[').and_then(|x| x.strip_suffix(']')).unwrap_or(s);
        if let Ok(ip) = t.parse::<IpAddr>() {
            return Ok(ip);
        }
    }
    Err(host.to_vec())
}

fn same_dest(a: &Dest, b: &Dest) -> bool {
    a.port == b.port && canon(&a.host) == canon(&b.host)
}

fn dest_of_target(t: &TargetAddress) -> Dest {
    match t {
        TargetAddress::DomainPort(h, p) => Dest { host: h.as_bytes().to_vec(), port: *p },
        TargetAddress::SocketAddr(a) => Dest { host: a.ip().to_string().into_bytes(), port: a.port() },
        TargetAddress::Unknown => Dest { host: b"<unknown>".to_vec(), port: 0 },
    }
}

// ---------------------------------------------------------------- inbound: harness bytes -> real decoder
static INBOUND: &[&str] = &["http-connect", "socks5", "socks4a", "socks5-udp", "rpfm"];

fn inbound_bytes(codec: &str, d: &Dest) -> Option<Vec<u8>> {
    let mut b = vec![];
    match codec {
        "http-connect" => {
            if d.host.iter().any(|c| *c == b'\n') && false {
                return None;
            }
            b.extend_from_slice(b"CONNECT ");
            b.extend_from_slice(&d.host);
            b.extend_from_slice(format!(":{} HTTP/1.1\r\n\r\n", d.port).as_bytes());
        }
        "socks5" => {
            if d.host.len() > 255 {
                return None;
            }
            b.extend_from_slice(&[5, 1, 0, 5, 1, 0, 3, d.host.len() as u8]);
            b.extend_from_slice(&d.host);
            b.extend_from_slice(&d.port.to_be_bytes());
        }
        "socks4a" => {
            if d.host.contains(&0) {
                return None; // NUL terminates the field: not a host this protocol can carry
            }
            b.extend_from_slice(&[4, 1]);
            b.extend_from_slice(&d.port.to_be_bytes());
            b.extend_from_slice(&[0, 0, 0, 1, b'u', 0]);
            b.extend_from_slice(&d.host);
            b.push(0);
        }
        "socks5-udp" => {
            if d.host.len() > 255 {
                return None;
            }
            b.extend_from_slice(&[0, 0, 0, 3, d.host.len() as u8]);
            b.extend_from_slice(&d.host);
            b.extend_from_slice(&d.port.to_be_bytes());
            b.extend_from_slice(b"payload");
        }
        "rpfm" => {
            if d.host.len() + 2 > 255 {
                return None;
            }
            b.extend_from_slice(b"RPFM");
            b.extend_from_slice(&9u32.to_be_bytes());
            b.extend_from_slice(&((d.host.len() + 4) as u16).to_be_bytes());
            b.extend_from_slice(&7u16.to_be_bytes());
            b.push(3);
            b.push((d.host.len() + 2) as u8);
            b.extend_from_slice(&d.host);
            b.extend_from_slice(&d.port.to_be_bytes());
            b.extend_from_slice(b"payload");
        }
        _ => unreachable!(),
    }
    Some(b)
}

enum In {
    Target(TargetAddress),
    Refused,
    Panic(Panicked),
}

fn inbound_decode(codec: &str, bytes: &[u8]) -> In {
    // every other input arrives in two segments, cut at a place derived from its bytes (a destination must not depend on where
    // the network happened to split the request; C12 drives segmentation systematically, this only keeps C03 from assuming it away)
    let h = bytes.iter().fold(bytes.len() as u64, |a, b| a.wrapping_mul(31).wrapping_add(*b as u64));
    let io = if h % 2 == 0 && bytes.len() > 1 {
        let cut = 1 + (h / 2) as usize % (bytes.len() - 1);
        ScriptedIo::new(vec![bytes[..cut].to_vec(), bytes[cut..].to_vec()], true)
    } else {
        ScriptedIo::whole(bytes)
    };
    let codec = codec.to_string();
    let bytes = bytes.to_vec();
    let fut = async move {
        let mut rd = BufReader::new(io);
        match codec.as_str() {
            "http-connect" => match HttpRequest::read_from(&mut rd).await {
                Ok(req) => req.resource.parse::<TargetAddress>().ok(),
                Err(_) => None,
            },
            "socks5" | "socks4a" => SocksRequest::read_from(&mut rd, NoAuth).await.ok().map(|r| r.target),
            "socks5-udp" => decode_socks_frame(Frame::from_body(Bytes::from(bytes))).ok().and_then(|f| f.addr),
            "rpfm" => Frame::from_buffer(Bytes::from(bytes)).ok().and_then(|f| f.addr),
            _ => unreachable!(),
        }
    };
    match run_budget(fut, 200_000) {
        Ran::Done(Some(t)) => In::Target(t),
        Ran::Done(None) => In::Refused,
        Ran::Panicked(p) => In::Panic(p),
        Ran::Hung => In::Refused,
    }
}

// ---------------------------------------------------------------- outbound: real encoder -> reference parser
static OUTBOUND: &[&str] = &["http-connect", "socks5", "socks4", "socks5-udp", "rpfm"];

enum Enc {
    Bytes(Vec<u8>),
    Refused(String),
    Panic(Panicked),
}

fn outbound_encode(codec: &str, t: &TargetAddress, max_write: usize) -> Enc {
    let codec = codec.to_string();
    let t = t.clone();
    let fut = async move {
        match codec.as_str() {
            "http-connect" => {
                let server = ScriptedIo::whole(b"HTTP/1.1 200 OK\r\n\r\n");
                server.set_max_write(max_write);
                let contexts = Arc::new(crate::context::GlobalState::default());
                let ctx = contexts.create_context("l".into(), "127.0.0.1:9".parse().unwrap()).await;
                ctx.write().await.set_target(t).set_feature(Feature::TcpForward);
                let a = "127.0.0.1:1".parse().unwrap();
                let res = h11c_connect(make_buffered_stream(server.clone()), ctx, a, a, "inline", |_| async { unreachable!() }).await;
                (res.map_err(|e| e.to_string()), server.written())
            }
            "socks5" | "socks4" => {
                let io = ScriptedIo::whole(&[5, 0, 5, 0, 0, 1, 0, 0, 0, 0, 0, 0]);
                io.set_max_write(max_write);
                let mut s = make_buffered_stream(io.clone());
                let req = SocksRequest { version: if codec == "socks5" { 5 } else { 4 }, cmd: 1, target: t, auth: None };
                let res = req.write_to(&mut s, PasswordAuth::optional()).await;
                (res.map_err(|e| e.to_string()), io.written())
            }
            "socks5-udp" => {
                let mut f = Frame::from_body(Bytes::from_static(b"payload"));
                f.addr = Some(t);
                match encode_socks_frame(f) {
                    Ok(b) => (Ok(()), b.to_vec()),
                    Err(e) => (Err(e.to_string()), vec![]),
                }
            }
            "rpfm" => {
                let mut f = Frame::from_body(Bytes::from_static(b"payload"));
                f.addr = Some(t);
                f.session_id = 9;
                let io = ScriptedIo::new(vec![], false);
                io.set_max_write(max_write);
                let mut w = io.clone();
                match f.write_to(&mut w).await {
                    Ok(_) => (Ok(()), io.written()),
                    Err(e) => (Err(e.to_string()), io.written()),
                }
            }
            _ => unreachable!(),
        }
    };
    match run_budget(fut, 500_000) {
        Ran::Done((Ok(()), b)) => Enc::Bytes(b),
        Ran::Done((Err(e), _)) => Enc::Refused(e),
        Ran::Panicked(p) => Enc::Panic(p),
        Ran::Hung => Enc::Refused("hung".into()),
    }
}

/// strict reference parsers of what a standards-conforming next hop would read; Err = malformed / extra fields
fn reference_parse(codec: &str, b: &[u8]) -> Result<Dest, String> {
    match codec {
        "http-connect" => {
            // request-line CRLF *(header CRLF) CRLF ; nothing after
            let end = b.windows(4).position(|w| w == b"\r\n\r\n").ok_or("no end of head")?;
            if end + 4 != b.len() {
                return Err(format!("{} bytes after the end of the request head", b.len() - end - 4));
            }
            // every line of the head, each terminated by CRLF; a CR or LF anywhere else is malformed
            let head = &b[..end + 2];
            let mut raw_lines: Vec<&[u8]> = vec![];
            let mut start = 0;
            let mut i = 0;
            while i < head.len() {
                if head[i] == b'\r' && head.get(i + 1) == Some(&b'\n') {
                    raw_lines.push(&head[start..i]);
                    i += 2;
                    start = i;
                } else if head[i] == b'\r' || head[i] == b'\n' {
                    return Err("bare CR or LF inside the request head".into());
                } else {
                    i += 1;
                }
            }
            let mut lines = raw_lines.into_iter();
            let rl = lines.next().ok_or("empty")?;
            let parts: Vec<&[u8]> = rl.split(|c| *c == b' ').collect();
            if parts.len() != 3 || parts[0] != b"CONNECT" || parts[2] != b"HTTP/1.1" {
                return Err(format!("request line has {} space-separated parts", parts.len()));
            }
            let authority = parts[1];
            let mut host_hdr = None;
            for l in lines {
                let i = l.iter().position(|c| *c == b':').ok_or("header line without colon (injected line?)")?;
                let (k, v) = (&l[..i], &l[i + 1..]);
                let v = v.strip_prefix(b" ").unwrap_or(v);
                if k.eq_ignore_ascii_case(b"host") {
                    if host_hdr.is_some() {
                        return Err("two Host headers".into());
                    }
                    host_hdr = Some(v.to_vec());
                } else {
                    return Err(format!("unexpected header {:?} (protocol field injected)", String::from_utf8_lossy(k)));
                }
            }
            if let Some(h) = host_hdr {
                if h != authority {
                    return Err("Host header differs from the request target".into());
                }
            }
            let bracket_end = authority.iter().position(|c| *c == b']');
            let (host, port) = if authority.first() == Some(&b'[') && bracket_end.map(|i| authority.get(i + 1) == Some(&b':')) == Some(true) {
                let i = bracket_end.unwrap();
                (&authority[..=i], &authority[i + 2..])
            } else {
                let i = authority.iter().rposition(|c| *c == b':').ok_or("no port")?;
                (&authority[..i], &authority[i + 1..])
            };
            let port: u16 = std::str::from_utf8(port).map_err(|_| "port")?.parse().map_err(|_| "port not numeric")?;
            Ok(Dest { host: host.to_vec(), port })
        }
        "socks5" => {
            // greeting 05 01 00, then request 05 01 00 atyp addr port, nothing else
            if b.len() < 3 || b[..3] != [5, 1, 0] {
                return Err("bad greeting".into());
            }
            let r = &b[3..];
            if r.len() < 4 || r[..3] != [5, 1, 0] {
                return Err("bad request head".into());
            }
            let (host, rest): (Vec<u8>, &[u8]) = match r[3] {
                1 => (std::net::Ipv4Addr::new(r[4], r[5], r[6], r[7]).to_string().into_bytes(), &r[8..]),
                4 => {
                    let mut o = [0u8; 16];
                    o.copy_from_slice(r.get(4..20).ok_or("short v6")?);
                    (std::net::Ipv6Addr::from(o).to_string().into_bytes(), &r[20..])
                }
                3 => {
                    let n = *r.get(4).ok_or("short")? as usize;
                    (r.get(5..5 + n).ok_or("domain longer than the message")?.to_vec(), &r[5 + n..])
                }
                x => return Err(format!("atyp {}", x)),
            };
            if rest.len() != 2 {
                return Err(format!("{} bytes where the 2-byte port is expected (length byte does not match the host)", rest.len()));
            }
            Ok(Dest { host, port: u16::from_be_bytes([rest[0], rest[1]]) })
        }
        "socks4" => {
            if b.len() < 9 || b[0] != 4 || b[1] != 1 {
                return Err("bad head".into());
            }
            let port = u16::from_be_bytes([b[2], b[3]]);
            let ip = [b[4], b[5], b[6], b[7]];
            let rest = &b[8..];
            let i = rest.iter().position(|c| *c == 0).ok_or("unterminated user id")?;
            let after = &rest[i + 1..];
            if ip[0] == 0 && ip[1] == 0 && ip[2] == 0 && ip[3] != 0 {
                let j = after.iter().position(|c| *c == 0).ok_or("unterminated host")?;
                if j + 1 != after.len() {
                    return Err(format!("{} bytes after the host terminator (NUL inside the host splits it)", after.len() - j - 1));
                }
                Ok(Dest { host: after[..j].to_vec(), port })
            } else {
                if !after.is_empty() {
                    return Err("bytes after the request".into());
                }
                Ok(Dest { host: std::net::Ipv4Addr::from(ip).to_string().into_bytes(), port })
            }
        }
        "socks5-udp" => {
            if b.len() < 4 || b[2] != 0 {
                return Err("bad head".into());
            }
            let (host, rest): (Vec<u8>, &[u8]) = match b[3] {
                1 => (std::net::Ipv4Addr::new(b[4], b[5], b[6], b[7]).to_string().into_bytes(), &b[8..]),
                4 => {
                    let mut o = [0u8; 16];
                    o.copy_from_slice(b.get(4..20).ok_or("short")?);
                    (std::net::Ipv6Addr::from(o).to_string().into_bytes(), &b[20..])
                }
                3 => {
                    let n = b[4] as usize;
                    (b.get(5..5 + n).ok_or("short")?.to_vec(), &b[5 + n..])
                }
                x => return Err(format!("atyp {}", x)),
            };
            if rest.len() != 2 + 7 || &rest[2..] != b"payload" {
                return Err("payload does not follow the header where the length says".into());
            }
            Ok(Dest { host, port: u16::from_be_bytes([rest[0], rest[1]]) })
        }
        "rpfm" => {
            if b.len() < 12 || &b[..4] != b"RPFM" {
                return Err("bad magic".into());
            }
            let attr_len = u16::from_be_bytes([b[8], b[9]]) as usize;
            let body_len = u16::from_be_bytes([b[10], b[11]]) as usize;
            if b.len() != 12 + attr_len + body_len || body_len != 7 || &b[12 + attr_len..] != b"payload" {
                return Err("lengths do not add up".into());
            }
            let a = &b[12..12 + attr_len];
            if a.len() < 2 || a[1] as usize != a.len() - 2 {
                return Err(format!("attribute TLV length {} does not cover the {} value bytes (length byte wrapped)", a.get(1).cloned().unwrap_or(0), a.len().saturating_sub(2)));
            }
            let v = &a[2..];
            match a[0] {
                3 => {
                    if v.len() < 2 {
                        return Err("short".into());
                    }
                    Ok(Dest { host: v[..v.len() - 2].to_vec(), port: u16::from_be_bytes([v[v.len() - 2], v[v.len() - 1]]) })
                }
                1 if v.len() == 6 => Ok(Dest { host: std::net::Ipv4Addr::new(v[0], v[1], v[2], v[3]).to_string().into_bytes(), port: u16::from_be_bytes([v[4], v[5]]) }),
                2 if v.len() == 18 => {
                    let mut o = [0u8; 16];
                    o.copy_from_slice(&v[..16]);
                    Ok(Dest { host: std::net::Ipv6Addr::from(o).to_string().into_bytes(), port: u16::from_be_bytes([v[16], v[17]]) })
                }
                t => Err(format!("tag {}", t)),
            }
        }
        _ => unreachable!(),
    }
}

/// the single property of the host that explains a failure on this codec (keeps signatures coarse and stable)
fn relevant(codec: &str, h: &[u8], partial: bool) -> &'static str {
    let ctl = h.iter().any(|x| *x < 0x20 || *x == 0x7f);
    match codec {
        "http-connect" => {
            if h.contains(&b'\r') || h.contains(&b'\n') { "CR/LF in host" }
            else if h.contains(&b' ') { "space in host" }
            else if ctl { "control byte in host" }
            else if std::str::from_utf8(h).is_err() { "non-UTF-8 host" }
            else if partial { "long host, partial writes" }
            else { "other host" }
        }
        "socks5" | "socks5-udp" => if h.len() > 255 { "host longer than 255" } else if partial { "partial writes" } else if std::str::from_utf8(h).is_err() { "non-UTF-8 host" } else { "other host" },
        "socks4" | "socks4a" => if h.contains(&0) { "NUL in host" } else if partial { "partial writes" } else if std::str::from_utf8(h).is_err() { "non-UTF-8 host" } else { "other host" },
        "rpfm" => if h.len() < 4 { "host shorter than 4" } else if h.len() > 253 { "host longer than 253" } else if std::str::from_utf8(h).is_err() { "non-UTF-8 host" } else { "other host" },
        _ => "other host",
    }
}

fn host_class(h: &[u8]) -> String {
    let mut c = vec![];
    if h.is_empty() { c.push("empty"); }
    if h.len() < 4 { c.push("len<4"); }
    if h.len() > 253 { c.push("len>253"); }
    if h.len() > 255 { c.push("len>255"); }
    if h.contains(&0) { c.push("NUL"); }
    if h.contains(&b' ') { c.push("space"); }
    if h.contains(&b'\r') || h.contains(&b'\n') { c.push("CR/LF"); }
    if h.contains(&b':') { c.push("colon"); }
    if std::str::from_utf8(h).is_err() { c.push("non-UTF-8"); } else if h.iter().any(|x| *x >= 0x80) { c.push("multibyte"); }
    if h.iter().any(|x| *x < 0x20 && *x != 0 && *x != b'\r' && *x != b'\n') { c.push("control"); }
    if c.is_empty() { "plain".into() } else { c.join("+") }
}

fn gen_host(r: &mut Rng) -> Vec<u8> {
    let len = *r.pick(&[0usize, 1, 2, 3, 4, 5, 11, 63, 64, 200, 253, 254, 255, 256, 300, 4096, 9000, 70000]);
    let len = if len > 300 && r.chance(2, 3) { *r.pick(&[7usize, 12, 30]) } else { len };
    let mut h: Vec<u8> = (0..len).map(|i| if i % 9 == 8 { b'.' } else { b'a' + (r.next() % 26) as u8 }).collect();
    match r.below(18) {
        0 => {}
        1 => {}
        2 if len > 0 => { let i = r.below(len); h[i] = b':'; }
        3 if len > 0 => { let i = r.below(len); h[i] = b' '; }
        4 if len > 0 => { let i = r.below(len); h[i] = b'\r'; }
        5 if len > 0 => { let i = r.below(len); h[i] = b'\n'; }
        6 if len > 0 => { let i = r.below(len); h[i] = 0; }
        7 if len > 0 => { let i = r.below(len); h[i] = *r.pick(&[0x80u8, 0xff, 0xc3, 0xfe]); }
        8 => { h.extend_from_slice(b"\r\nX-Injected: 1"); }
        9 => { h = "b\u{fc}cher.example".as_bytes().to_vec(); }
        10 => { h.extend_from_slice(b":80"); }
        11 if len > 0 => { let i = r.below(len); h[i] = *r.pick(&[b'/', b'@', b'\t', 0x7f, b'[', b']', b'%']); }
        12 => { h = (*r.pick(&[&b"1.2.3.4"[..], b"255.255.255.255", b"0.0.0.0", b"[::1]", b"::1", b"[2001:db8::1]", b"::ffff:1.2.3.4", b"127.1", b"localhost"])).to_vec(); }
        13 | 14 | 15 => {
            // valid multi-byte UTF-8 of (about) the drawn byte length: character count and byte count differ
            let chars = ["\u{e9}", "\u{6f22}", "\u{1f600}", "a", "."];
            let width = r.below(3);
            let mut s = String::new();
            while s.len() < len {
                let c = if r.chance(1, 8) { chars[3 + r.below(2)] } else { chars[if r.chance(3, 4) { width } else { r.below(3) }] };
                if s.len() + c.len() > len && r.chance(1, 2) { break; }
                s.push_str(c);
            }
            if !s.is_empty() { h = s.into_bytes(); }
        }
        16 => {
            // Unicode white space and invisible characters around an otherwise ordinary name or address literal: part of the
            // destination the client named (a decoder that tidies them away forwards another destination)
            let ws = *r.pick(&["\u{a0}", "\u{85}", "\u{2028}", "\u{3000}", "\u{1680}", "\u{feff}", "\u{200b}", "\u{2003}"]);
            let core = if r.chance(1, 3) { (*r.pick(&["10.1.2.3", "intranet.test", "::1"])).to_string() } else { String::from_utf8_lossy(&h).to_string() };
            let t = match r.below(3) { 0 => format!("{}{}", ws, core), 1 => format!("{}{}", core, ws), _ => format!("{}{}{}", ws, core, ws) };
            h = t.into_bytes();
        }
        _ => {}
    }
    h
}

pub async fn run(args: &Args) {
    let mut out = Out::new(
        "C03",
        "c03",
        "destinations (host bytes of lengths 0..70000 and classes plain/colon/space/CR/LF/NUL/control/non-UTF-8/multibyte/Unicode white space at the edges/IP-literal/bracketed x ports {0,1,79,80,255,256,65535}) carried in through every inbound codec (HTTP CONNECT, SOCKS5, SOCKS4a, SOCKS5-UDP header, RPFM attr) and out through every outbound encoder (CONNECT via h11c_connect, SOCKS5, SOCKS4, SOCKS5-UDP, RPFM) with full and partial writes; outgoing bytes parsed by strict reference parsers; 2-hop check through the real peer decoder; address-typed SOCKS4 requests over the 0.0.0.0/8 corner and CONNECT authorities whose port is arbitrary text. distinct = distinct (inbound, outbound, host class, length class, port)",
    );
    let mut rng = Rng::new(args.seed);
    let n = args.n(8000, 300_000);
    let ports = [0u16, 1, 79, 80, 255, 256, 65535];
    for i in 0..n {
        let d = Dest { host: gen_host(&mut rng), port: *rng.pick(&ports) };
        let cls = host_class(&d.host);
        for inc in INBOUND {
            let wire = match inbound_bytes(inc, &d) {
                Some(w) => w,
                None => continue, // this protocol cannot carry that host at all
            };
            out.case();
            let t1 = match inbound_decode(inc, &wire) {
                In::Refused => {
                    out.count("refused_at_inbound", 1);
                    continue;
                }
                In::Panic(p) => {
                    out.violation(format!("inbound {}: {}", inc, p.sig()), serde_json::json!({"host_hex": hex(&d.host), "port": d.port}));
                    continue;
                }
                In::Target(t) => t,
            };
            let d1 = dest_of_target(&t1);
            if !same_dest(&d1, &d) {
                out.violation(
                    format!("inbound {}: destination seen by the rules differs from the one the client sent [{}]", inc, relevant(inc, &d.host, false)),
                    serde_json::json!({"sent_host_hex": hex(&d.host), "sent_port": d.port, "decoded": format!("{:?}", t1).chars().take(200).collect::<String>()}),
                );
                continue;
            }
            for outc in OUTBOUND {
                let max_write = if i % 3 == 0 { *rng.pick(&[1000usize, 4096, 9000]) } else { usize::MAX };
                out.case();
                let key = (inc, outc, cls.clone(), d.host.len().min(300), d.port);
                match outbound_encode(outc, &t1, max_write) {
                    Enc::Refused(_) => {
                        out.count("refused_at_outbound", 1);
                        out.nontrivial(&key);
                    }
                    Enc::Panic(p) => out.violation(format!("outbound {}: {}", outc, p.sig()), serde_json::json!({"host_hex": hex(&d.host), "port": d.port, "target": format!("{:?}", t1).chars().take(120).collect::<String>()})),
                    Enc::Bytes(b) => {
                        out.nontrivial(&key);
                        match reference_parse(outc, &b) {
                            Err(why) => out.violation(
                                format!("outbound {}: emitted bytes are not a well-formed request for this destination [{}]", outc, relevant(outc, &d.host, max_write != usize::MAX && d.host.len() > 900)),
                                serde_json::json!({"via_inbound": inc, "host_hex": hex(&d.host), "port": d.port, "why": why, "emitted_hex": hex(&b[..b.len().min(200)]), "emitted_len": b.len(), "max_write": if max_write == usize::MAX { 0 } else { max_write }}),
                            ),
                            Ok(d2) => {
                                if !same_dest(&d2, &d) {
                                    out.violation(
                                        format!("outbound {}: next hop is asked for another destination than the client's [{}]", outc, relevant(outc, &d.host, max_write != usize::MAX && d.host.len() > 900)),
                                        serde_json::json!({"via_inbound": inc, "sent_host_hex": hex(&d.host), "sent_port": d.port, "next_hop_reads_host_hex": hex(&d2.host), "next_hop_reads_port": d2.port}),
                                    );
                                } else if *outc == "rpfm" || *outc == "socks5-udp" || *outc == "http-connect" {
                                    // second hop: the real peer decoder must read the same destination again
                                    let peer = match *outc { "rpfm" => "rpfm", "socks5-udp" => "socks5-udp", _ => "http-connect" };
                                    out.case();
                                    match inbound_decode(peer, &b) {
                                        In::Target(t2) if same_dest(&dest_of_target(&t2), &d) => {}
                                        In::Target(t2) => out.violation(
                                            format!("2 hops over {}: the peer proxy decodes another destination [{}]", outc, relevant(outc, &d.host, false)),
                                            serde_json::json!({"sent_host_hex": hex(&d.host), "port": d.port, "peer_decodes": format!("{:?}", t2).chars().take(200).collect::<String>()}),
                                        ),
                                        In::Refused => out.violation(
                                            format!("2 hops over {}: the peer proxy cannot decode what this proxy encoded [{}]", outc, relevant(outc, &d.host, false)),
                                            serde_json::json!({"sent_host_hex": hex(&d.host), "port": d.port, "emitted_hex": hex(&b[..b.len().min(120)])}),
                                        ),
                                        In::Panic(p) => out.violation(format!("2 hops over {}: peer decoder {}", outc, p.sig()), serde_json::json!({"host_hex": hex(&d.host)})),
                                    }
                                }
                                if out.want_sample() && cls != "plain" {
                                    out.sample(serde_json::json!({"inbound": inc, "outbound": outc, "host_hex": hex(&d.host), "class": cls, "port": d.port, "emitted_len": b.len()}));
                                }
                            }
                        }
                    }
                }
            }
        }
    }
    // IP targets through every encoder (all address forms)
    for s in ["0.0.0.0:0", "255.255.255.255:65535", "127.0.0.1:80", "[::]:0", "[::1]:80", "[::ffff:1.2.3.4]:443", "[2001:db8::ff00:42:8329]:65535", "[fe80::1]:1"] {
        let t: TargetAddress = s.parse().unwrap();
        let d = dest_of_target(&t);
        for outc in OUTBOUND {
            out.case();
            out.nontrivial(&("ip", outc, s));
            match outbound_encode(outc, &t, usize::MAX) {
                Enc::Refused(_) => {
                    if !(*outc == "socks4" && s.starts_with('[')) {
                        out.violation(format!("outbound {}: IP destination refused", outc), serde_json::json!({"target": s}));
                    }
                }
                Enc::Panic(p) => out.violation(format!("outbound {}: {}", outc, p.sig()), serde_json::json!({"target": s})),
                Enc::Bytes(b) => match reference_parse(outc, &b) {
                    Ok(d2) if same_dest(&d2, &d) => {}
                    other => out.violation(format!("outbound {}: IP destination not encoded faithfully", outc), serde_json::json!({"target": s, "parsed": format!("{:?}", other)})),
                },
            }
        }
    }
    // ---- inbound forms the generator above cannot write: address-typed SOCKS4 requests and raw CONNECT authorities
    // (a) plain SOCKS4 carries the destination as an IPv4 address; only 0.0.0.x (x != 0) announces a host name behind the user id.
    //     Every other address - also the rest of 0.0.0.0/16 - is the destination itself, and what follows the user id is payload.
    for ip in ["0.0.1.0", "0.0.1.5", "0.0.255.255", "0.1.0.0", "0.0.0.0", "1.2.3.4", "127.0.0.1", "255.255.255.255", "0.255.0.1", "1.0.0.0"] {
        for port in [1u16, 80, 443, 65535] {
            out.case();
            out.nontrivial(&("socks4-address", ip, port));
            let a: std::net::Ipv4Addr = ip.parse().unwrap();
            let mut b = vec![4u8, 1];
            b.extend_from_slice(&port.to_be_bytes());
            b.extend_from_slice(&a.octets());
            b.extend_from_slice(b"user\0evil.example\0payload");
            match inbound_decode("socks4a", &b) {
                In::Target(TargetAddress::SocketAddr(sa)) if sa.ip() == std::net::IpAddr::V4(a) && sa.port() == port => {}
                In::Refused => out.count("refused_at_inbound", 1),
                In::Panic(p) => out.violation(format!("inbound socks4: {}", p.sig()), serde_json::json!({"address": ip, "port": port})),
                In::Target(t) => out.violation(
                    "inbound socks4: destination seen by the rules differs from the one the client sent [IPv4 address field]".into(),
                    serde_json::json!({"sent": format!("{}:{}", ip, port), "decoded": format!("{:?}", t)}),
                ),
            }
        }
    }
    // (b) the port of a CONNECT authority is text: whatever is accepted must be that number, everything else is refused
    for host in ["example.com", "10.1.2.3", "[2001:db8::1]", "xn--bcher-kva.example"] {
        for port in ["0", "80", "65535", "65536", "65616", "65979", "99999", "100000", "4294967376", "080", "00080", "+80", "-80", "-0", "0x50", "80 ", " 80", "8 0", "", "８０", "80\u{0660}", "1e2", "80.0", "443/"] {
            out.case();
            out.nontrivial(&("connect-port-text", host, port));
            let b = format!("CONNECT {}:{} HTTP/1.1\r\n\r\n", host, port).into_bytes();
            // the number the text denotes, if it is one a port field can hold (an optional sign and leading zeros do not change it)
            let digits = port.strip_prefix('+').unwrap_or(port);
            let denoted: Option<u16> = if !digits.is_empty() && digits.bytes().all(|c| c.is_ascii_digit()) { digits.parse::<u32>().ok().and_then(|v| u16::try_from(v).ok()) } else { None };
            match inbound_decode("http-connect", &b) {
                In::Refused => out.count("refused_at_inbound", 1),
                In::Panic(p) => out.violation(format!("inbound http-connect: {}", p.sig()), serde_json::json!({"authority": format!("{}:{}", host, port)})),
                In::Target(t) => {
                    let d1 = dest_of_target(&t);
                    let want_host = host.trim_start_matches('[').trim_end_matches(']');
                    if denoted != Some(d1.port) || d1.host != want_host.as_bytes() {
                        out.violation(
                            "inbound http-connect: destination seen by the rules differs from the one the client sent [port text]".into(),
                            serde_json::json!({"authority": format!("{}:{}", host, port), "decoded": format!("{:?}", t)}),
                        );
                    }
                }
            }
        }
    }
    out.finish();
}
