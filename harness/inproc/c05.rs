// C05 (in-process part) — no peer-controlled input can panic a decoder or make it spin.
// Every decoder is run on generated hostile inputs under catch_unwind with a poll budget; the shipped
// profile aborts on panic, so a caught panic is a violation. Signature = (decoder, panic site, stem).
use super::c11;
use super::c12::{self, Dec, Msg};
use super::util::*;
use crate::common::fragment::Fragments;
use crate::common::frames::Frame;
use crate::common::h11c::{h11c_connect, h11c_handshake};
use crate::common::socks::frames::{decode_socks_frame, encode_socks_frame};
use crate::context::{make_buffered_stream, Feature, TargetAddress};
use bytes::Bytes;
use easy_error::bail;
use std::sync::Arc;

fn mutate(r: &mut Rng, b: &[u8]) -> Vec<u8> {
    let mut v = b.to_vec();
    for _ in 0..1 + r.below(3) {
        if v.is_empty() {
            v = r.rbytes(1, 8);
            continue;
        }
        match r.below(9) {
            0 => {
                let i = r.below(v.len());
                v[i] ^= 1 << r.below(8);
            }
            1 => {
                let i = r.below(v.len());
                v[i] = *r.pick(&[0u8, 1, 2, 3, 4, 5, 0x7f, 0x80, 0xfe, 0xff, b'\r', b'\n', b' ', b':']);
            }
            2 => {
                let k = r.below(v.len() + 1);
                v.truncate(k);
            }
            3 => {
                let i = r.below(v.len() + 1);
                let ins = r.rbytes(1, 6);
                v.splice(i..i, ins);
            }
            4 => {
                let i = r.below(v.len());
                let j = i + r.below(v.len() - i);
                let chunk = v[i..=j].to_vec();
                v.splice(j..j, chunk);
            }
            5 => {
                let i = r.below(v.len());
                v.remove(i);
            }
            6 => {
                // 16-bit length-like edges
                if v.len() >= 2 {
                    let i = r.below(v.len() - 1);
                    let e = *r.pick(&[0u16, 1, 2, 0x00ff, 0x0100, 0x7fff, 0x8000, 0xfffe, 0xffff]);
                    v[i] = (e >> 8) as u8;
                    v[i + 1] = e as u8;
                }
            }
            7 => {
                let big = *r.pick(&[300usize, 5000, 70000]);
                let i = r.below(v.len() + 1);
                let fill = *r.pick(&[b'a', 0u8, 0xff, b' ']);
                v.splice(i..i, std::iter::repeat(fill).take(big));
            }
            _ => {
                v.extend_from_slice(b);
            }
        }
    }
    v
}

fn seg(r: &mut Rng, b: &[u8]) -> ScriptedIo {
    match r.below(3) {
        0 => ScriptedIo::whole(b),
        1 => ScriptedIo::cut(b, &(1..b.len()).collect::<Vec<_>>(), r.chance(1, 2)),
        _ => {
            let mut c: Vec<usize> = (0..r.below(5)).map(|_| 1 + r.below(b.len().max(2) - 1)).collect();
            c.sort();
            c.dedup();
            ScriptedIo::cut(b, &c, r.chance(1, 2))
        }
    }
}

fn stream_decoder_case(out: &mut Out, r: &mut Rng, codec: &'static str, input: Vec<u8>) {
    out.case();
    let io = seg(r, &input);
    match c12::decode(codec, io) {
        Dec::Panic(p) => out.violation(format!("{} decoder: {}", codec, p.sig()), serde_json::json!({"input_hex": hex(&input), "len": input.len(), "panic": p.msg})),
        Dec::Hung => {
            // re-run alone, unsegmented
            match c12::decode(codec, ScriptedIo::whole(&input)) {
                Dec::Hung => out.violation(format!("{} decoder: does not terminate on finite input", codec), serde_json::json!({"input_hex": hex(&input)})),
                _ => {
                    println!("{}", serde_json::json!({"t": "note", "what": "poll budget exceeded only when segmented", "codec": codec, "input_hex": hex(&input[..input.len().min(400)]), "len": input.len()}));
                    out.inconclusive += 1
                }
            }
        }
        _ => {}
    }
    out.nontrivial(&(codec, &input));
    if out.want_sample() && input.len() > 8 && input.len() < 120 {
        out.sample(serde_json::json!({"decoder": codec, "input_hex": hex(&input)}));
    }
}

fn rpfm_attr_cases() -> Vec<Vec<u8>> {
    // frames whose header is consistent but whose attribute block is hostile
    let mut v = vec![];
    let mk = |attr: &[u8], body: &[u8]| {
        let mut b = b"RPFM".to_vec();
        b.extend_from_slice(&7u32.to_be_bytes());
        b.extend_from_slice(&(attr.len() as u16).to_be_bytes());
        b.extend_from_slice(&(body.len() as u16).to_be_bytes());
        b.extend_from_slice(attr);
        b.extend_from_slice(body);
        b
    };
    for attr in [
        &[][..], &[3], &[3, 0], &[3, 1, b'a'], &[3, 2, 0, 80], &[3, 3, b'a', 0, 80], &[3, 5, b'a', b'b', b'c', 0, 80], &[3, 6, b'a', b'b', b'c', b'd', 0, 80],
        &[1, 6, 1, 2, 3, 4, 0, 80], &[1, 5, 1, 2, 3, 4, 0, 80], &[1, 6, 1, 2], &[2, 18, 0, 0], &[9, 6, 1, 2, 3, 4, 0, 80], &[3, 255, b'a', b'b', b'c', b'd', 0, 80],
        &[3, 0, 0, 0, 0, 0, 0, 0], &[3, 1, 0, 0, 0, 0, 0, 0], &[1, 0, 0, 0, 0, 0, 0, 0], &[2, 6, 0, 0, 0, 0, 0, 0],
    ] {
        v.push(mk(attr, b"xy"));
    }
    v
}

/// a frame with a generated attribute block: 0..3 TLV records (known and unknown types, declared lengths that agree or not
/// with what follows), then 0..2 stray bytes
fn rpfm_attr_any(r: &mut Rng) -> Vec<u8> {
    if r.chance(1, 2) {
        let c = rpfm_attr_cases();
        return c[r.below(c.len())].clone();
    }
    let mut attr: Vec<u8> = vec![];
    for _ in 0..r.below(4) {
        let t = *r.pick(&[1u8, 2, 3, 3, 9, 0, 255]);
        let declared = *r.pick(&[0u8, 1, 2, 5, 6, 7, 18, 19, 255]);
        let actual = match r.below(4) {
            0 => declared as usize,
            1 => (declared as usize).saturating_sub(1),
            2 => declared as usize + 1,
            _ => r.below(8),
        };
        attr.push(t);
        attr.push(declared);
        attr.extend((0..actual).map(|i| if i + 2 >= actual { [0u8, 80][i % 2] } else { b'a' + (i % 26) as u8 }));
    }
    for _ in 0..r.below(3) {
        attr.push(*r.pick(&[0u8, 1, 3, 255]));
    }
    let body = r.rbytes(0, 5);
    let mut b = b"RPFM".to_vec();
    b.extend_from_slice(&7u32.to_be_bytes());
    b.extend_from_slice(&(attr.len() as u16).to_be_bytes());
    b.extend_from_slice(&(body.len() as u16).to_be_bytes());
    b.extend_from_slice(&attr);
    b.extend_from_slice(&body);
    b
}

async fn h11c_connect_case(out: &mut Out, r: &mut Rng) {
    // hostile upstream answering the CONNECT the real h11c_connect sends
    let statuses = ["HTTP/1.1 200 OK", "HTTP/1.1 200", "HTTP/1.1 99999 x", "HTTP/1.1 -1 x", "HTTP/1.1 abc x", "HTTP/1.1  200 OK", "HTTP/9 200 OK", "200 OK HTTP/1.1", "", "HTTP/1.1 407 Auth", "HTTP/1.1 20", "HTTP/1.1 2", "HTTP/1.1 2\u{20ac} OK", "HTTP/1.1 \u{20ac}\u{20ac} OK", "HTTP/1.1 2000 OK", "HTTP/1.1 200\u{e9}", "HTTP/1.1 \u{e9}"];
    let sids = ["", "0", "7", "x", "-1", "4294967295", "4294967296", "99999999999999999999", " 7", "7 ", "+7", "0x7"];
    let st = *r.pick(&statuses);
    let mut reply = format!("{}\r\n", st);
    if r.chance(2, 3) {
        reply += &format!("Session-Id: {}\r\n", r.pick(&sids));
    }
    if r.chance(1, 3) {
        reply += *r.pick(&["X\r\n", ": \r\n", "A: b\r\n", "Session-Id:7\r\n", "\u{e9}: \u{e9}\r\n"]);
    }
    if r.chance(1, 3) {
        // an upstream that names a channel: whatever it says, the caller asked for inline frames and passes a frame_fn that
        // must never run
        reply += &format!("Proxy-Channel: {}\r\n", r.pick(&["inline", "quic-datagrams", "Inline", "", "x", "inline, quic-datagrams", "\u{e9}"]));
    }
    reply += "\r\n";
    let mut bytes = reply.into_bytes();
    if r.chance(1, 4) {
        bytes = mutate(r, &bytes);
    }
    if r.chance(1, 2) {
        bytes.extend_from_slice(&rpfm_attr_any(r));
    }
    let feature = *r.pick(&[Feature::TcpForward, Feature::UdpForward, Feature::UdpBind]);
    out.case();
    out.nontrivial(&("h11c_connect", &bytes, feature as u8));
    if out.want_sample() {
        out.sample(serde_json::json!({"entry": "h11c_connect", "upstream_reply": String::from_utf8_lossy(&bytes).chars().take(120).collect::<String>()}));
    }
    let contexts = Arc::new(crate::context::GlobalState::default());
    let ctx = contexts.create_context("l".into(), "127.0.0.1:9".parse().unwrap()).await;
    {
        let mut g = ctx.write().await;
        g.set_target(TargetAddress::DomainPort("example.com".into(), 53)).set_feature(feature);
        if feature == Feature::UdpBind {
            g.set_extra("udp-bind-source", "127.0.0.1:5");
        }
    }
    let io = seg(r, &bytes);
    let server = make_buffered_stream(io);
    let ctx2 = ctx.clone();
    let fut = async move {
        let a = "127.0.0.1:1".parse().unwrap();
        let res = h11c_connect(server, ctx2.clone(), a, a, "inline", |_| async { panic!("frame_fn must not be called for the inline channel") }).await;
        if res.is_ok() {
            // drain frames the upstream pipelined behind its reply
            if let Some((_c, (mut rd, _wr))) = {
                let mut g = ctx2.write().await;
                g.set_client_frames((Box::new(NullFrames), Box::new(NullFrames)));
                g.take_frames()
            } {
                for _ in 0..4 {
                    match rd.read().await {
                        Ok(Some(_)) => {}
                        _ => break,
                    }
                }
            }
        }
    };
    match run_budget(fut, 200_000 + 16 * bytes.len()) {
        Ran::Panicked(p) => out.violation(format!("h11c_connect (upstream reply): {}", p.sig()), serde_json::json!({"reply_hex": hex(&bytes), "reply": String::from_utf8_lossy(&bytes).chars().take(200).collect::<String>(), "feature": format!("{:?}", feature), "panic": p.msg})),
        Ran::Hung => {
            println!("{}", serde_json::json!({"t": "note", "what": "h11c_connect: poll budget exceeded", "reply_hex": hex(&bytes[..bytes.len().min(400)]), "len": bytes.len(), "feature": format!("{:?}", feature)}));
            out.inconclusive += 1
        }
        Ran::Done(()) => {}
    }
}

struct NullFrames;
#[async_trait::async_trait]
impl crate::common::frames::FrameReader for NullFrames {
    async fn read(&mut self) -> std::io::Result<Option<Frame>> {
        Ok(None)
    }
}
#[async_trait::async_trait]
impl crate::common::frames::FrameWriter for NullFrames {
    async fn write(&mut self, f: Frame) -> std::io::Result<usize> {
        Ok(f.len())
    }
    async fn shutdown(&mut self) -> std::io::Result<()> {
        Ok(())
    }
}

async fn h11c_handshake_case(out: &mut Out, r: &mut Rng) {
    let hosts = ["example.com:80", "a:1", "[::1]:80", "1.2.3.4:65535", ":", "x", "a:b", "a:99999", "", "[::1]", "a:-1", "\u{e9}:80"];
    // authority strings over the delimiter alphabet of host:port / [v6]:port syntax (every string up to length 5 is reachable)
    let delim_host = {
        let alphabet = ["[", "]", ":", "a", "1", "\u{e9}", "%", ".", "-", "::", "[::1]", "\u{6f22}"];
        let mut h = String::new();
        for _ in 0..r.below(6) {
            h.push_str(*r.pick(&alphabet));
        }
        if r.chance(1, 2) {
            h.push_str(*r.pick(&[":80", ":0", ":65536", ":", ":x"]));
        }
        h
    };
    let host: String = if r.chance(1, 2) { delim_host } else { r.pick(&hosts).to_string() };
    let mut req = format!("{} {} HTTP/1.1\r\n", r.pick(&["CONNECT", "connect", "GET", ""]), host);
    for _ in 0..r.below(4) {
        req += *r.pick(&["Proxy-Protocol: udp\r\n", "Proxy-Protocol: tcp\r\n", "Proxy-Protocol: x\r\n", "Proxy-Channel: inline\r\n", "Proxy-Channel: quic-datagrams\r\n", "Proxy-Channel: \r\n", "Udp-Bind-Source: 1.2.3.4:5\r\n", "Udp-Bind-Source: x\r\n", "Host: a\r\n", "Broken\r\n"]);
    }
    req += "\r\n";
    let mut bytes = req.into_bytes();
    if r.chance(1, 3) {
        bytes = mutate(r, &bytes);
    }
    if r.chance(1, 2) {
        bytes.extend_from_slice(&rpfm_attr_any(r));
    }
    out.case();
    out.nontrivial(&("h11c_handshake", &bytes));
    let contexts = Arc::new(crate::context::GlobalState::default());
    let ctx = contexts.create_context("l".into(), "127.0.0.1:9".parse().unwrap()).await;
    let io = seg(r, &bytes);
    ctx.write().await.set_client_stream(make_buffered_stream(io));
    let (tx, mut rx) = tokio::sync::mpsc::channel(4);
    let ctx2 = ctx.clone();
    let fut = async move {
        let res = h11c_handshake(ctx2.clone(), tx, |_, _| async { bail!("no datagram channel on this listener") }).await;
        if res.is_ok() {
            if let Some(c) = rx.recv().await {
                // the listener would now route; run the success callback (writes the 200, builds inline frames)
                use crate::context::ContextRefOps;
                c.on_connect().await;
                let fr = c.write().await.take_frames();
                let _ = fr;
            }
        }
    };
    match run_budget(fut, 200_000 + 16 * bytes.len()) {
        Ran::Panicked(p) => out.violation(format!("h11c_handshake (client request): {}", p.sig()), serde_json::json!({"request_hex": hex(&bytes), "request": String::from_utf8_lossy(&bytes).chars().take(200).collect::<String>(), "panic": p.msg})),
        Ran::Hung => {
            println!("{}", serde_json::json!({"t": "note", "what": "h11c_handshake: poll budget exceeded", "request_hex": hex(&bytes[..bytes.len().min(400)]), "len": bytes.len()}));
            out.inconclusive += 1
        }
        Ran::Done(()) => {}
    }
}

pub async fn run(args: &Args) {
    let mut out = Out::new(
        "C05",
        "c05",
        "hostile inputs to every decoder under catch_unwind + poll budget: grammar-aware mutations of valid messages (flip, truncate, insert, duplicate, length-field edges, oversized fields), pure random, hostile RPFM attribute blocks, exhaustive fragment (total,seq,len) header grid, hostile MTUs for the splitter, hostile upstream replies to h11c_connect and hostile requests to h11c_handshake. distinct = distinct (decoder, input bytes)",
    );
    let mut rng = Rng::new(args.seed);
    // ---- exhaustive fragment header grid (shared with C11)
    c11::header_grid(&mut out);

    // ---- hostile MTUs reported by the transport (peer-controlled max_datagram_frame_size)
    for mtu in 0..=8usize {
        for len in [1usize, 5, 100] {
            out.case();
            out.nontrivial(&("mtu", mtu, len));
            let thing = c11::Raw(Bytes::from(vec![7u8; len]));
            let mut id = 0u16;
            if let Err(p) = guard(|| Fragments::<c11::Raw>::make_fragments(mtu, &mut id, thing).count()) {
                out.violation(format!("make_fragments with peer-controlled mtu<=4: {}", p.sig()), serde_json::json!({"mtu": mtu, "len": len, "panic": p.msg}));
            }
        }
    }

    // ---- sync datagram decoders
    let n_sync = args.n(600_000, 30_000_000);
    let seeds: Vec<u64> = (0..n_workers()).map(|_| rng.next()).collect();
    parallel(&mut out, |wi, wn, out| {
        let mut r = Rng::new(seeds[wi]);
        let valid_socks: Vec<Vec<u8>> = vec![
            vec![0, 0, 0, 1, 1, 2, 3, 4, 0, 53, 9, 9],
            vec![0, 0, 0, 3, 3, b'a', b'.', b'b', 0, 53, 9],
            vec![0, 0, 0, 4, 0, 0, 0, 0, 0, 0, 0, 0, 0, 0, 0, 0, 0, 0, 0, 1, 0, 53, 1],
        ];
        let attrs = rpfm_attr_cases();
        for i in 0..(n_sync / wn + 1) {
            // SOCKS5 UDP header
            let base = r.pick(&valid_socks).clone();
            let input = match i % 4 { 0 => base, 1 => r.rbytes(0, 23), _ => mutate(&mut r, &base) };
            out.case();
            out.nontrivial(&("socks-udp", &input));
            if let Err(p) = guard(|| decode_socks_frame(Frame::from_body(Bytes::from(input.clone()))).map(|f| encode_socks_frame(f).map(|b| b.len()))) {
                out.violation(format!("decode_socks_frame: {}", p.sig()), serde_json::json!({"input_hex": hex(&input), "panic": p.msg}));
            }
            // RPFM frame from one buffer (QUIC datagram path after reassembly)
            let base = if r.chance(1, 2) { r.pick(&attrs).clone() } else { rpfm_attr_any(&mut r) };
            let input = match i % 4 { 0 => base, 1 => { let mut b = b"RPFM".to_vec(); b.extend(r.rbytes(0, 29)); b } _ => mutate(&mut r, &base) };
            out.case();
            out.nontrivial(&("rpfm-buffer", &input));
            if let Err(p) = guard(|| Frame::from_buffer(Bytes::from(input.clone())).map(|f| f.make_header().len())) {
                out.violation(format!("Frame::from_buffer: {}", p.sig()), serde_json::json!({"input_hex": hex(&input), "panic": p.msg}));
            }
            // reassembly of random datagram sequences (Frame as the payload type, as on the wire)
            if i % 8 == 0 {
                let mut f = Fragments::<Frame>::new(std::time::Duration::from_secs(5));
                let k = 1 + r.below(6);
                let mut seq = vec![];
                for _ in 0..k {
                    let mut d = vec![0, r.below(2) as u8, *r.pick(&[0u8, 1, 2, 3, 127, 128, 255]), *r.pick(&[0u8, 1, 2, 3, 127, 128, 255])];
                    d.extend(r.pick(&attrs).iter().take(r.below(40)));
                    d.truncate(*r.pick(&[0usize, 1, 3, 4, 5, 40]));
                    seq.push(d);
                }
                out.case();
                out.nontrivial(&("datagram-seq", &seq));
                for d in &seq {
                    if let Err(p) = guard(|| f.reassemble(Bytes::from(d.clone())).map(|x| x.len())) {
                        out.violation(format!("reassemble (datagram sequence): {}", p.sig()), serde_json::json!({"datagrams_hex": seq.iter().map(|d| hex(d)).collect::<Vec<_>>(), "panic": p.msg}));
                        break;
                    }
                }
            }
        }
    });

    // ---- stream decoders
    let n_stream = args.n(250_000, 12_000_000);
    let seeds: Vec<u64> = (0..n_workers()).map(|_| rng.next()).collect();
    let gens: [(&'static str, fn(&mut Rng) -> Msg); 5] = [
        ("http-request", c12::gen_http_request), ("http-response", c12::gen_http_response), ("socks5-request", c12::gen_socks_request),
        ("socks5-response", c12::gen_socks_response), ("rpfm-frames", c12::gen_frames),
    ];
    parallel(&mut out, |wi, wn, out| {
        let mut r = Rng::new(seeds[wi]);
        let attrs = rpfm_attr_cases();
        for i in 0..(n_stream / wn + 1) {
            let (codec, g) = gens[i % gens.len()];
            let m = g(&mut r);
            let input = match r.below(10) {
                0 => r.rbytes(0, 63),
                1 if codec == "rpfm-frames" => {
                    let mut b = if r.chance(1, 2) { r.pick(&attrs).clone() } else { rpfm_attr_any(&mut r) };
                    if r.chance(1, 2) { b.extend(rpfm_attr_any(&mut r)); }
                    b
                }
                2 => { let k = r.below(m.bytes.len() + 1); m.bytes[..k].to_vec() }
                _ => mutate(&mut r, &m.bytes),
            };
            stream_decoder_case(out, &mut r, codec, input);
        }
        // every hostile attribute block through the stream reader, alone and followed by a valid frame
        if wi == 0 {
            for a in &attrs {
                stream_decoder_case(out, &mut r, "rpfm-frames", a.clone());
                let mut b = a.clone();
                b.extend(c12::gen_frames(&mut r).bytes);
                stream_decoder_case(out, &mut r, "rpfm-frames", b);
            }
        }
    });

    // ---- handshake-level entry points on real Contexts
    for _ in 0..args.n(20_000, 1_000_000) {
        h11c_connect_case(&mut out, &mut rng).await;
        h11c_handshake_case(&mut out, &mut rng).await;
    }
    out.finish();
}
