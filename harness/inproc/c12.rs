// C12 — stream decoders are insensitive to segmentation; truncated input never yields a message.
// The real decoders are driven on a ScriptedIo with chosen cut sets (and Pending between segments);
// result and left-over bytes must equal the single-segment run and the message the generator intended.
use super::util::*;
use crate::common::frames::{frames_from_stream, Frame};
use crate::common::h11c::h11c_handshake;
use crate::common::http::{HttpRequest, HttpResponse};
use crate::common::socks::{PasswordAuth, SocksRequest, SocksResponse};
use crate::config::IoParams;
use crate::context::{make_buffered_stream, Feature, TargetAddress};
use crate::copy::copy_bidi;
use easy_error::bail;
use std::sync::Arc;
use tokio::io::{AsyncBufReadExt, BufReader};

#[derive(Clone, Debug)]
pub struct Msg {
    pub codec: &'static str,
    pub bytes: Vec<u8>,
    pub expect: String, // canonical rendering of what the decoder must return
}

pub fn addr_variants(r: &mut Rng) -> (TargetAddress, u8) {
    // returns target and a tag 0=v4 1=domain 2=v6
    let port = *r.pick(&[0u16, 1, 80, 255, 256, 443, 65535]);
    match r.below(3) {
        0 => (TargetAddress::SocketAddr(std::net::SocketAddr::new(std::net::Ipv4Addr::new(1 + r.below(254) as u8, r.below(256) as u8, r.below(256) as u8, 1 + r.below(254) as u8).into(), port)), 0),
        1 => {
            let l = *r.pick(&[1usize, 3, 4, 11, 63, 200, 255]);
            let host: String = (0..l).map(|i| if i % 7 == 6 { '.' } else { (b'a' + r.below(26) as u8) as char }).collect();
            (TargetAddress::DomainPort(host, port), 1)
        }
        _ => {
            let mut o = [0u8; 16];
            for x in o.iter_mut() {
                *x = r.next() as u8;
            }
            o[0] = 0x20;
            (TargetAddress::SocketAddr(std::net::SocketAddr::new(std::net::Ipv6Addr::from(o).into(), port)), 2)
        }
    }
}

fn put_addr_v5(b: &mut Vec<u8>, t: &TargetAddress) {
    match t {
        TargetAddress::SocketAddr(std::net::SocketAddr::V4(a)) => {
            b.push(1);
            b.extend_from_slice(&a.ip().octets());
            b.extend_from_slice(&a.port().to_be_bytes());
        }
        TargetAddress::SocketAddr(std::net::SocketAddr::V6(a)) => {
            b.push(4);
            b.extend_from_slice(&a.ip().octets());
            b.extend_from_slice(&a.port().to_be_bytes());
        }
        TargetAddress::DomainPort(h, p) => {
            b.push(3);
            b.push(h.len() as u8);
            b.extend_from_slice(h.as_bytes());
            b.extend_from_slice(&p.to_be_bytes());
        }
        _ => unreachable!(),
    }
}

pub fn gen_http_request(r: &mut Rng) -> Msg {
    let (t, _) = addr_variants(r);
    let mut s = format!("CONNECT {} HTTP/1.1\r\n", t);
    let mut headers = vec![];
    // a few header fields, sometimes many (62..66, 100: around any plausible field-count limit), values with multi-byte UTF-8
    let n_headers = match r.below(12) { 0 => 62 + r.below(5), 1 => 100, _ => r.below(4) };
    for i in 0..n_headers {
        let (k, v) = *r.pick(&[("Host", "example.com:80"), ("Proxy-Connection", "keep-alive"), ("User-Agent", "x y z"), ("X-A", "b: c"), ("X-Note", "caf\u{e9} \u{6f22}\u{5b57}"), ("Host", "b\u{fc}cher.example:443")]);
        let k = if n_headers > 8 { format!("{}-{}", k, i) } else { k.to_string() };
        s += &format!("{}: {}\r\n", k, v);
        headers.push((k, v.to_string()));
    }
    s += "\r\n";
    let expect = format!("{:?}", HttpRequest { method: "CONNECT".into(), resource: t.to_string(), version: "HTTP/1.1".into(), headers });
    Msg { codec: "http-request", bytes: s.into_bytes(), expect }
}

pub fn gen_http_response(r: &mut Rng) -> Msg {
    let (code, status) = *r.pick(&[(200u16, "Connection established"), (200, "OK"), (403, "Forbidden"), (503, "Service unavailable"), (407, "Proxy Authentication Required")]);
    let mut s = format!("HTTP/1.1 {} {}\r\n", code, status);
    let mut headers = vec![];
    let n_headers = match r.below(12) { 0 => 62 + r.below(5), 1 => 100, _ => r.below(3) };
    for i in 0..n_headers {
        let (k, v) = *r.pick(&[("Session-Id", "7"), ("Content-Length", "0"), ("Udp-Bind-Address", "127.0.0.1:9"), ("Server", "x"), ("Server", "caf\u{e9}/\u{1f600}")]);
        let k = if n_headers > 8 { format!("{}-{}", k, i) } else { k.to_string() };
        s += &format!("{}: {}\r\n", k, v);
        headers.push((k, v.to_string()));
    }
    s += "\r\n";
    let expect = format!("{:?}", HttpResponse { version: "HTTP/1.1".into(), code, status: status.into(), headers });
    Msg { codec: "http-response", bytes: s.into_bytes(), expect }
}

pub fn gen_socks_request(r: &mut Rng) -> Msg {
    let (t, tag) = addr_variants(r);
    let cmd = *r.pick(&[1u8, 1, 1, 3, 2]);
    let mut b = vec![];
    let kind = r.below(4);
    if kind == 0 && tag != 2 {
        // socks4 / 4a
        b.push(4);
        b.push(cmd);
        b.extend_from_slice(&t.port().to_be_bytes());
        let id: String = (0..*r.pick(&[0usize, 1, 5])).map(|_| (b'a' + r.below(26) as u8) as char).collect();
        match &t {
            TargetAddress::SocketAddr(std::net::SocketAddr::V4(a)) => {
                b.extend_from_slice(&a.ip().octets());
                b.extend_from_slice(id.as_bytes());
                b.push(0);
            }
            TargetAddress::DomainPort(h, _) => {
                b.extend_from_slice(&[0, 0, 0, 7]);
                b.extend_from_slice(id.as_bytes());
                b.push(0);
                b.extend_from_slice(h.as_bytes());
                b.push(0);
            }
            _ => unreachable!(),
        }
        let expect = format!("{:?}", SocksRequest { version: 4, cmd, target: t, auth: Some((id, String::new())) });
        return Msg { codec: "socks4-request", bytes: b, expect };
    }
    // socks5, optionally with username/password sub-negotiation
    let userpass = kind == 1;
    b.push(5);
    if userpass {
        b.extend_from_slice(&[2, 0, 2]);
    } else {
        let extra = r.below(3);
        b.push(1 + extra as u8);
        for _ in 0..extra {
            b.push(*r.pick(&[1u8, 0x80, 0xfe]));
        }
        b.push(if r.chance(1, 2) { 2 } else { 0 });
        // required=true server: picks 2 if offered else none; we keep it simple: offer 2 always last
        let l = b.len();
        b[l - 1] = 2;
    }
    let (u, p) = ((0..*r.pick(&[0usize, 1, 8, 255])).map(|_| (b'a' + r.below(26) as u8) as char).collect::<String>(), (0..*r.pick(&[0usize, 1, 8, 255])).map(|_| (b'A' + r.below(26) as u8) as char).collect::<String>());
    b.push(1);
    b.push(u.len() as u8);
    b.extend_from_slice(u.as_bytes());
    b.push(p.len() as u8);
    b.extend_from_slice(p.as_bytes());
    b.extend_from_slice(&[5, cmd, 0]);
    put_addr_v5(&mut b, &t);
    let expect = format!("{:?}", SocksRequest { version: 5, cmd, target: t, auth: Some((u, p)) });
    Msg { codec: "socks5-request", bytes: b, expect }
}

pub fn gen_socks_response(r: &mut Rng) -> Msg {
    let (t, tag) = addr_variants(r);
    let cmd = *r.pick(&[0u8, 0, 1, 5, 90, 91]);
    let mut b = vec![];
    if tag == 0 && r.chance(1, 2) {
        b.push(0);
        b.push(cmd);
        b.extend_from_slice(&t.port().to_be_bytes());
        if let TargetAddress::SocketAddr(std::net::SocketAddr::V4(a)) = &t {
            b.extend_from_slice(&a.ip().octets());
        }
        let expect = format!("{:?}", SocksResponse { version: 4, cmd, target: t });
        return Msg { codec: "socks4-response", bytes: b, expect };
    }
    b.extend_from_slice(&[5, cmd, 0]);
    put_addr_v5(&mut b, &t);
    let expect = format!("{:?}", SocksResponse { version: 5, cmd, target: t });
    Msg { codec: "socks5-response", bytes: b, expect }
}

pub fn frame_render(f: &Frame) -> String {
    format!("({:?},{},{})", f.addr, f.session_id, hex(&f.body))
}

pub fn gen_frames(r: &mut Rng) -> Msg {
    let n = 1 + r.below(3);
    let mut bytes = vec![];
    let mut exp = vec![];
    for _ in 0..n {
        let blen = *r.pick(&[0usize, 1, 2, 17, 300, 1500, 9000, 65535]);
        let blen = if blen > 2000 && r.chance(2, 3) { r.below(64) } else { blen };
        let mut f = Frame::from_body(bytes::Bytes::from(r.bytes(blen)));
        f.session_id = r.next() as u32;
        f.addr = if r.chance(1, 6) { None } else {
            let (t, _) = addr_variants(r);
            // RPFM header carries hosts of 4..=253 bytes (shorter/longer are C03's business)
            match &t { TargetAddress::DomainPort(h, _) if h.len() < 6 || h.len() > 253 => Some(TargetAddress::DomainPort("host.example".into(), t.port())), _ => Some(t) }
        };
        let head = f.make_header();
        bytes.extend_from_slice(&head);
        bytes.extend_from_slice(&f.body);
        exp.push(frame_render(&f));
    }
    Msg { codec: "rpfm-frames", bytes, expect: exp.join(";") }
}

pub enum Dec {
    Ok { rendered: String, leftover: Vec<u8>, written: Vec<u8> },
    Err(String),
    Panic(Panicked),
    Hung,
}

/// run one decoder over one scripted stream
pub fn decode(codec: &str, io: ScriptedIo) -> Dec {
    let probe = io.clone();
    let codec = codec.to_string();
    let fut = async move {
        let mut rd = BufReader::new(io);
        let res: Result<String, String> = match codec.as_str() {
            "http-request" => HttpRequest::read_from(&mut rd).await.map(|x| format!("{:?}", x)).map_err(|e| e.to_string()),
            "http-response" => HttpResponse::read_from(&mut rd).await.map(|x| format!("{:?}", x)).map_err(|e| e.to_string()),
            "socks4-request" | "socks5-request" => SocksRequest::read_from(&mut rd, PasswordAuth::required()).await.map(|x| format!("{:?}", x)).map_err(|e| e.to_string()),
            "socks4-response" | "socks5-response" => SocksResponse::read_from(&mut rd).await.map(|x| format!("{:?}", x)).map_err(|e| e.to_string()),
            "rpfm-frames" => {
                let (mut frd, _fwr) = frames_from_stream(0, rd);
                let mut v = vec![];
                let r = loop {
                    match frd.read().await {
                        Ok(Some(f)) => v.push(frame_render(&f)),
                        Ok(None) => break Ok(v.join(";")),
                        Err(e) => break Err(format!("{}|{}", v.join(";"), e)),
                    }
                };
                return (r, vec![]);
            }
            _ => unreachable!(),
        };
        // left-over = what is still readable afterwards
        let mut left = vec![];
        loop {
            let chunk = match rd.fill_buf().await {
                Ok(c) => c.to_vec(),
                Err(_) => break,
            };
            if chunk.is_empty() {
                break;
            }
            let n = chunk.len();
            left.extend_from_slice(&chunk);
            rd.consume(n);
        }
        (res, left)
    };
    match run_budget(fut, 2_000_000) {
        Ran::Done((Ok(r), left)) => Dec::Ok { rendered: r, leftover: left, written: probe.written() },
        Ran::Done((Err(e), _)) => Dec::Err(e),
        Ran::Panicked(p) => Dec::Panic(p),
        Ran::Hung => Dec::Hung,
    }
}

fn cut_sets(r: &mut Rng, n: usize, thorough: bool) -> (Vec<Vec<usize>>, bool) {
    let mut sets: Vec<Vec<usize>> = vec![];
    if n <= 14 || (thorough && n <= 17) {
        for m in 0..(1u64 << (n - 1)) {
            sets.push(cuts_from_mask(n, m));
        }
        return (sets, true);
    }
    sets.push((1..n).collect()); // one byte at a time
    let step = if thorough { 1 } else { (n / 40).max(1) };
    for c in (1..n).step_by(step) {
        sets.push(vec![c]);
    }
    let pairs = if thorough { 300 } else { 40 };
    for _ in 0..pairs {
        let a = 1 + r.below(n - 1);
        let b = 1 + r.below(n - 1);
        if a != b {
            sets.push(vec![a.min(b), a.max(b)]);
        }
    }
    for _ in 0..(if thorough { 60 } else { 12 }) {
        let k = 1 + r.below(8);
        let mut c: Vec<usize> = (0..k).map(|_| 1 + r.below(n - 1)).collect();
        c.sort();
        c.dedup();
        sets.push(c);
    }
    (sets, false)
}

fn check_msg(out: &mut Out, r: &mut Rng, m: &Msg, thorough: bool) {
    let trailing_len = if m.codec == "rpfm-frames" { 0 } else { *r.pick(&[0usize, 1, 17, 9000]) };
    let trailing = r.bytes(trailing_len);
    let mut full = m.bytes.clone();
    full.extend_from_slice(&trailing);
    // baseline: unsegmented
    out.case();
    let base = decode(m.codec, ScriptedIo::whole(&full));
    let (b_r, b_l, b_w) = match base {
        Dec::Ok { rendered, leftover, written } => (rendered, leftover, written),
        Dec::Err(e) => {
            out.violation(format!("{}: valid message rejected in one segment", m.codec), serde_json::json!({"msg": hex(&m.bytes), "error": e}));
            return;
        }
        Dec::Panic(p) => {
            out.violation(format!("{}: {}", m.codec, p.sig()), serde_json::json!({"msg": hex(&m.bytes), "panic": p.msg}));
            return;
        }
        Dec::Hung => {
            out.inconclusive += 1;
            return;
        }
    };
    if b_r != m.expect {
        out.violation(format!("{}: decoded message differs from the message sent", m.codec), serde_json::json!({"msg": hex(&m.bytes), "got": b_r.chars().take(300).collect::<String>(), "expected": m.expect.chars().take(300).collect::<String>()}));
        return;
    }
    if b_l != trailing {
        out.violation(format!("{}: bytes left for the tunnel differ from the bytes following the message", m.codec), serde_json::json!({"msg": hex(&m.bytes), "trailing_len": trailing.len(), "leftover_len": b_l.len()}));
        return;
    }
    // segmentations of the message part (trailing rides in the last segment, or is cut once as well)
    let n = m.bytes.len();
    let (sets, exhaustive) = cut_sets(r, n, thorough);
    if exhaustive {
        out.count("messages_with_exhaustive_cut_sets", 1);
    }
    for (i, cuts) in sets.iter().enumerate() {
        for pending in [false, true] {
            if pending && !exhaustive && i % 3 != 0 {
                continue;
            }
            let mut cuts2 = cuts.clone();
            if !trailing.is_empty() && i % 2 == 0 {
                cuts2.push(n); // message and payload in different segments
                if trailing.len() > 1 {
                    cuts2.push(n + 1 + r.below(trailing.len() - 1));
                }
            }
            out.case();
            let d = decode(m.codec, ScriptedIo::cut(&full, &cuts2, pending));
            match d {
                Dec::Ok { rendered, leftover, written } => {
                    if rendered != b_r || leftover != b_l || written != b_w {
                        let what = if rendered != b_r { "parsed message" } else if leftover != b_l { "left-over bytes" } else { "bytes written back" };
                        out.violation(format!("{}: {} depend on segmentation", m.codec, what), serde_json::json!({"msg": hex(&m.bytes), "cuts": cuts2, "pending_between": pending, "got": rendered.chars().take(200).collect::<String>(), "leftover_len": leftover.len(), "expected_leftover_len": b_l.len()}));
                        return;
                    }
                }
                Dec::Err(e) => {
                    out.violation(format!("{}: valid message rejected under segmentation", m.codec), serde_json::json!({"msg": hex(&m.bytes), "cuts": cuts2, "pending_between": pending, "error": e}));
                    return;
                }
                Dec::Panic(p) => {
                    out.violation(format!("{}: {}", m.codec, p.sig()), serde_json::json!({"msg": hex(&m.bytes), "cuts": cuts2, "panic": p.msg}));
                    return;
                }
                Dec::Hung => out.inconclusive += 1,
            }
            if !cuts2.is_empty() {
                out.nontrivial(&(m.codec, &m.bytes, &cuts2, pending));
            }
        }
    }
    if out.want_sample() {
        out.sample(serde_json::json!({"codec": m.codec, "message_hex": hex(&m.bytes[..m.bytes.len().min(64)]), "len": n, "cut_sets": sets.len(), "exhaustive": exhaustive, "example_cuts": sets.get(sets.len() / 2)}));
    }
    // truncation at every offset (strict prefixes of the message, nothing after)
    let step = if thorough || n < 80 { 1 } else { n / 60 + 1 };
    for k in (0..n).step_by(step) {
        out.case();
        out.nontrivial(&(m.codec, &m.bytes, "trunc", k));
        match decode(m.codec, ScriptedIo::whole(&m.bytes[..k])) {
            Dec::Ok { rendered, .. } => {
                if m.codec == "rpfm-frames" {
                    // clean end-of-stream: the frames returned must be a proper prefix of the intended ones
                    let want: Vec<&str> = m.expect.split(';').collect();
                    let got: Vec<&str> = if rendered.is_empty() { vec![] } else { rendered.split(';').collect() };
                    if got.len() >= want.len() || got.iter().zip(&want).any(|(a, b)| a != b) {
                        out.violation("rpfm-frames: truncated stream yields a partial or fabricated frame".into(), serde_json::json!({"truncated_at": k, "of": n, "frames_got": got.len(), "frames_sent": want.len()}));
                        return;
                    }
                } else if m.codec.starts_with("http") && k == n - 1 && rendered == m.expect {
                    // only the LF of the terminating CRLF is missing: the head is complete and parsed as sent,
                    // so this is neither a partial nor a fabricated message
                    out.count("http_head_accepted_without_final_lf", 1);
                } else {
                    out.violation(format!("{}: truncated input accepted as a complete message", m.codec), serde_json::json!({"msg": hex(&m.bytes), "truncated_at": k, "of": n, "got": rendered.chars().take(200).collect::<String>()}));
                    return;
                }
            }
            Dec::Err(_) => {}
            Dec::Panic(p) => {
                out.violation(format!("{}: {}", m.codec, p.sig()), serde_json::json!({"msg": hex(&m.bytes[..k]), "panic": p.msg}));
                return;
            }
            Dec::Hung => out.inconclusive += 1,
        }
    }
}

/// whole HTTP CONNECT handshake on a real Context followed by the real relay: the origin must receive
/// exactly the bytes that followed the request head, whatever the segmentation.
async fn h11c_case(out: &mut Out, r: &mut Rng) {
    let m = gen_http_request(r);
    let plen = *r.pick(&[0usize, 1, 17, 5000]);
    let payload = r.bytes(plen);
    let mut full = m.bytes.clone();
    full.extend_from_slice(&payload);
    let n = m.bytes.len();
    let mut cuts: Vec<usize> = match r.below(4) {
        0 => vec![],
        1 => (1..full.len()).collect(),
        2 => vec![1 + r.below(n - 1)],
        _ => {
            let mut c: Vec<usize> = (0..1 + r.below(6)).map(|_| 1 + r.below(full.len() - 1)).collect();
            c.sort();
            c.dedup();
            c
        }
    };
    if r.chance(1, 2) {
        cuts.push(n);
        cuts.sort();
        cuts.dedup();
    }
    let pending = r.chance(1, 2);
    out.case();
    let contexts = Arc::new(crate::context::GlobalState::default());
    let ctx = contexts.create_context("h".into(), "127.0.0.1:1".parse().unwrap()).await;
    let client = ScriptedIo::cut(&full, &cuts, pending);
    ctx.write().await.set_client_stream(make_buffered_stream(client.clone()));
    let (tx, mut rx) = tokio::sync::mpsc::channel(4);
    let hs = h11c_handshake(ctx.clone(), tx, |_, _| async { bail!("not supported") }).await;
    if let Err(e) = hs {
        out.violation("h11c handshake: valid CONNECT rejected under segmentation".into(), serde_json::json!({"msg": hex(&m.bytes), "cuts": cuts, "error": e.to_string()}));
        return;
    }
    let got = rx.recv().await.unwrap();
    let target = got.read().await.target().to_string();
    let want_target = String::from_utf8_lossy(&m.bytes[8..]).split(' ').next().unwrap().to_string();
    if target != want_target || got.read().await.feature() != Feature::TcpForward {
        out.violation("h11c handshake: target depends on segmentation".into(), serde_json::json!({"got": target, "want": want_target, "cuts": cuts}));
        return;
    }
    let server = ScriptedIo::new(vec![], false);
    ctx.write().await.set_server_stream(make_buffered_stream(server.clone())).set_connector("x".into());
    let params = IoParams { buffer_size: *r.pick(&[1usize, 7, 4096, 65536]), use_splice: false };
    let res = copy_bidi(ctx.clone(), &params).await;
    let w = server.written();
    if w != payload {
        out.violation(
            "h11c handshake + relay: bytes forwarded to the origin differ from the bytes pipelined behind the request".into(),
            serde_json::json!({"cuts": cuts, "pending_between": pending, "payload_len": payload.len(), "forwarded_len": w.len(), "relay_result": format!("{:?}", res.map_err(|e| e.to_string())), "buffer_size": params.buffer_size}),
        );
        return;
    }
    if !cuts.is_empty() {
        out.nontrivial(&("h11c+relay", &m.bytes, &cuts, pending, payload.len()));
    }
}

/// CONNECT with "Proxy-Protocol: udp" (inline channel): the frames a client pipelines behind the request head - in the same
/// segment or cut anywhere - are the frames the relay gets, whatever the segmentation.
async fn h11c_udp_case(out: &mut Out, r: &mut Rng) {
    use crate::context::ContextRefOps;
    let fm = gen_frames(r);
    let head = b"CONNECT 0.0.0.0:53 HTTP/1.1\r\nProxy-Protocol: udp\r\n\r\n".to_vec();
    let n = head.len();
    let mut full = head.clone();
    full.extend_from_slice(&fm.bytes);
    let mut cuts: Vec<usize> = match r.below(5) {
        0 => vec![],                // everything in one segment
        1 => vec![n],               // frames in their own segment
        2 => vec![1 + r.below(full.len() - 1)],
        3 => (1..full.len().min(400)).collect(),
        _ => {
            let mut c: Vec<usize> = (0..1 + r.below(6)).map(|_| 1 + r.below(full.len() - 1)).collect();
            c.sort();
            c.dedup();
            c
        }
    };
    cuts.sort();
    cuts.dedup();
    let pending = r.chance(1, 2);
    out.case();
    let contexts = Arc::new(crate::context::GlobalState::default());
    let ctx = contexts.create_context("h".into(), "127.0.0.1:1".parse().unwrap()).await;
    let client = ScriptedIo::cut(&full, &cuts, pending);
    ctx.write().await.set_client_stream(make_buffered_stream(client.clone()));
    let (tx, mut rx) = tokio::sync::mpsc::channel(4);
    if let Err(e) = h11c_handshake(ctx.clone(), tx, |_, _| async { bail!("not supported") }).await {
        out.violation("h11c handshake (udp channel): valid CONNECT rejected under segmentation".into(), serde_json::json!({"cuts": cuts, "error": e.to_string()}));
        return;
    }
    let got = rx.recv().await.unwrap();
    if got.read().await.feature() != Feature::UdpForward {
        out.violation("h11c handshake (udp channel): feature depends on segmentation".into(), serde_json::json!({"cuts": cuts}));
        return;
    }
    got.write().await.set_connector("x".into());
    got.on_connect().await;
    got.write().await.set_server_frames(frames_from_stream(0, ScriptedIo::new(vec![], false)));
    let frames = got.write().await.take_frames();
    let ((mut frd, _fwr), _server) = match frames {
        Some(f) => f,
        None => {
            out.violation("h11c handshake (udp channel): no frame channel after a successful handshake".into(), serde_json::json!({"cuts": cuts}));
            return;
        }
    };
    let mut v = vec![];
    loop {
        match frd.read().await {
            Ok(Some(f)) => v.push(frame_render(&f)),
            Ok(None) => break,
            Err(e) => {
                v.push(format!("error:{}", e));
                break;
            }
        }
    }
    let rendered = v.join(";");
    if rendered != fm.expect {
        out.violation(
            "h11c handshake (udp channel): frames pipelined behind the request are lost or altered".into(),
            serde_json::json!({"cuts": cuts, "head_len": n, "pending_between": pending, "frames_sent": fm.expect.chars().take(200).collect::<String>(), "frames_read": rendered.chars().take(200).collect::<String>()}),
        );
        return;
    }
    out.nontrivial(&("h11c-udp", &fm.bytes[..fm.bytes.len().min(64)], &cuts, pending));
}

pub async fn run(args: &Args) {
    let mut out = Out::new(
        "C12",
        "c12",
        "generated valid messages per codec (HTTP request/response head, SOCKS4/4a/5 negotiation+request, SOCKS replies, 1-3 RPFM stream frames) x cut sets (ALL 2^(n-1) for n<=14, else every single cut, sampled pairs, one-byte-at-a-time, random sets; each with and without Pending between segments) x trailing payload; every truncation offset; plus whole CONNECT handshake + relay on a real Context. distinct = distinct (codec, message, cut set, pending) with >= 1 cut, and (codec, message, truncation offset)",
    );
    let mut rng = Rng::new(args.seed);
    let per = args.n(500, 3000);
    let gens: [fn(&mut Rng) -> Msg; 5] = [gen_http_request, gen_http_response, gen_socks_request, gen_socks_response, gen_frames];
    let seeds: Vec<u64> = (0..n_workers()).map(|_| rng.next()).collect();
    let thorough = args.thorough;
    parallel(&mut out, |wi, wn, out| {
        let mut r = Rng::new(seeds[wi]);
        for i in 0..(per * gens.len()) {
            if i % wn != wi {
                continue;
            }
            let m = gens[i % gens.len()](&mut r);
            check_msg(out, &mut r, &m, thorough);
        }
    });
    // fixed short messages so that the exhaustive-cut-set part never depends on the draw
    for bytes in [
        vec![4u8, 1, 0, 80, 1, 2, 3, 4, 0],
        vec![4u8, 1, 0, 80, 0, 0, 0, 1, 0, b'a', b'.', b'b', 0],
        vec![5u8, 1, 2, 1, 0, 0, 5, 1, 0, 1, 1, 2, 3, 4, 0, 80],
    ] {
        let codec = if bytes[0] == 4 { "socks4-request" } else { "socks5-request" };
        if let Dec::Ok { rendered, .. } = decode(codec, ScriptedIo::whole(&bytes)) {
            check_msg(&mut out, &mut rng, &Msg { codec, bytes, expect: rendered }, thorough);
        }
    }
    for _ in 0..args.n(10_000, 300_000) {
        h11c_case(&mut out, &mut rng).await;
        h11c_udp_case(&mut out, &mut rng).await;
    }
    out.finish();
}
