// Not a monitor: a minimal third-party-like QUIC upstream for the C19 end-to-end monitor.
// It speaks the CONNECT-over-QUIC-stream protocol the quic connector expects (one bidirectional stream per
// tunnel: HTTP CONNECT head, 200 reply, then raw bytes) and, unlike a redproxy listener that is simply killed,
// it can go away POLITELY: on the line "close" on stdin it sends CONNECTION_CLOSE to every peer (what real QUIC
// servers do on shutdown or restart) and exits.  "quit" exits without telling anybody.
//   REDPROXY_VERIF_INPROC=quicup redproxy-rs --bind 127.0.0.1:PORT --cert server.crt --key server.key

use super::util::Args;
use crate::common::quic::create_quic_server;
use crate::common::tls::TlsServerConfig;
use tokio::io::{AsyncBufReadExt, AsyncWriteExt, BufReader};

async fn serve_stream(mut send: quinn::SendStream, mut recv: quinn::RecvStream) -> Option<()> {
    let mut head = Vec::new();
    let mut b = [0u8; 1];
    while !head.ends_with(b"\r\n\r\n") {
        if head.len() > 16384 {
            return None;
        }
        let n = recv.read(&mut b).await.ok()??;
        if n == 0 {
            return None;
        }
        head.push(b[0]);
    }
    let text = String::from_utf8_lossy(&head).to_string();
    let mut it = text.split_whitespace();
    let (method, target) = (it.next()?, it.next()?);
    if method != "CONNECT" {
        let _ = send.write_all(b"HTTP/1.1 400 Bad Request\r\nContent-Length: 0\r\n\r\n").await;
        return None;
    }
    let tcp = match tokio::net::TcpStream::connect(target).await {
        Ok(t) => t,
        Err(_) => {
            let _ = send.write_all(b"HTTP/1.1 503 Service unavailable\r\nContent-Length: 0\r\n\r\n").await;
            let _ = send.finish().await;
            return None;
        }
    };
    send.write_all(b"HTTP/1.1 200 Connection established\r\n\r\n").await.ok()?;
    let (mut tr, mut tw) = tcp.into_split();
    let up = async {
        let _ = tokio::io::copy(&mut recv, &mut tw).await;
        let _ = tw.shutdown().await;
    };
    let down = async {
        let _ = tokio::io::copy(&mut tr, &mut send).await;
        let _ = send.finish().await;
    };
    tokio::join!(up, down);
    Some(())
}

pub async fn run(args: &Args) {
    let bind: std::net::SocketAddr = args.extra.get("bind").expect("--bind").parse().expect("bind address");
    let cfg = serde_yaml::to_value(serde_json::json!({"cert": args.extra.get("cert").expect("--cert"), "key": args.extra.get("key").expect("--key")})).unwrap();
    let mut tls: TlsServerConfig = serde_yaml::from_value(cfg).expect("tls config");
    tls.init().expect("tls init");
    let server = create_quic_server(&tls).expect("quic server config");
    let endpoint = quinn::Endpoint::server(server, bind).expect("bind");
    println!("ready {}", bind);
    let ep = endpoint.clone();
    tokio::spawn(async move {
        while let Some(connecting) = ep.accept().await {
            tokio::spawn(async move {
                if let Ok(conn) = connecting.await {
                    while let Ok((send, recv)) = conn.accept_bi().await {
                        tokio::spawn(serve_stream(send, recv));
                    }
                }
            });
        }
    });
    let mut lines = BufReader::new(tokio::io::stdin()).lines();
    loop {
        match lines.next_line().await {
            Ok(Some(l)) if l.trim() == "close" => {
                endpoint.close(0u32.into(), b"restarting");
                endpoint.wait_idle().await;
                println!("closed");
                std::process::exit(0);
            }
            Ok(Some(l)) if l.trim() == "quit" => std::process::exit(0),
            Ok(Some(_)) => {}
            _ => std::process::exit(0), // stdin closed: the harness is gone
        }
    }
}
