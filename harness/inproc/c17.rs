// C17 — load-balancer selection laws on the real LoadBalanceConnector (built from YAML through
// from_value -> init -> verify) with recording members.
use super::rec::*;
use super::util::*;
use crate::context::{Feature, TargetAddress};
use std::collections::HashMap;
use std::sync::{Arc, Mutex};

fn members(n: usize) -> Vec<Arc<RecConnector>> {
    (0..n).map(|i| RecConnector::new(&format!("m{}", i), &[Feature::TcpForward])).collect()
}

fn key_of(expr: &str, r: &Req) -> String {
    match expr {
        "request.target.host" => r.target.host(),
        "request.source.host" => r.source.ip().to_string(),
        "request.listener" => r.listener.clone(),
        "request.target" => r.target.to_string(),
        "request.source" => r.source.to_string(),
        "to_string(request.target.port)" => r.target.port().to_string(),
        "`${request.listener}|${request.target.host}`" => format!("{}|{}", r.listener, r.target.host()),
        "request.target.type" => r.target.r#type().to_string(),
        // keys that are empty for some or for all requests, and a constant key: equal keys all the same
        "if request.target.type == \"domain\" then request.target.host else \"\"" => if r.target.r#type() == "domain" { r.target.host() } else { String::new() },
        "\"\"" => String::new(),
        "\"k\"" => "k".to_string(),
        _ => unreachable!(),
    }
}

static KEYS: &[&str] = &[
    "request.target.host",
    "request.source.host",
    "request.listener",
    "request.target",
    "request.source",
    "to_string(request.target.port)",
    "`${request.listener}|${request.target.host}`",
    "request.target.type",
    "if request.target.type == \"domain\" then request.target.host else \"\"",
    "\"\"",
    "\"k\"",
];

pub async fn run(args: &Args) {
    let mut out = Out::new(
        "C17",
        "c17",
        "real LoadBalanceConnector with n=1..8 recording members: round-robin windows under a sequential driver and exact totals under 16 concurrent tasks on the multi-thread runtime; hashBy over 11 key expressions with repeated keys (incl. equal key strings from different target representations, keys that are empty for some or all requests, a constant key); random membership and coverage; recorded connector == member used. distinct = distinct (algorithm, n, key expression / driver)",
    );
    // log statements are part of the code under test: with a subscriber at TRACE level every argument of every debug!/trace!
    // line is really evaluated (into a sink), as it is on a proxy started with -l debug
    let _ = tracing_subscriber::fmt().with_max_level(tracing::Level::TRACE).with_writer(std::io::sink).try_init();
    let mut rng = Rng::new(args.seed);
    let rounds = args.n(300, 6000);
    for n in 1..=8usize {
        let names: Vec<String> = (0..n).map(|i| format!("m{}", i)).collect();
        // ---------------- round robin
        {
            let recs = members(n);
            let lbv = serde_json::json!({"name": "lb", "type": "loadbalance", "connectors": names, "algo": "rr"});
            let state = make_state(&recs, &[lbv]).await.unwrap();
            let lb = state.connectors.get("lb").unwrap().clone();
            // sequential: every window of n consecutive selections hits every member once
            let mut order = vec![];
            for _ in 0..(rounds * n) {
                out.case();
                let ctx = make_ctx(&state, &rand_req(&mut rng)).await;
                let id = ctx.read().await.props().id;
                let _ = lb.clone().connect(state.clone(), ctx.clone()).await;
                let hit: Vec<usize> = recs.iter().enumerate().filter(|(_, r)| r.calls.lock().unwrap().contains(&id)).map(|(i, _)| i).collect();
                for r in &recs {
                    r.take();
                }
                if hit.len() != 1 {
                    out.violation("round robin: a selection ran connect on zero or several members".into(), serde_json::json!({"n": n, "hit": hit}));
                    break;
                }
                let rec = ctx.read().await.props().connector.clone();
                if rec.as_deref() != Some(names[hit[0]].as_str()) {
                    out.violation("recorded connector differs from the member whose connect ran".into(), serde_json::json!({"algo": "rr", "n": n, "recorded": rec, "used": names[hit[0]]}));
                }
                order.push(hit[0]);
            }
            for w in order.chunks(n) {
                if w.len() == n {
                    let mut s = w.to_vec();
                    s.sort();
                    if s != (0..n).collect::<Vec<_>>() {
                        out.violation("round robin: a window of n consecutive selections does not contain every member exactly once".into(), serde_json::json!({"n": n, "window": w}));
                        break;
                    }
                }
            }
            out.nontrivial(&("rr-sequential", n));
            // concurrent: totals exactly k each
            let tasks = 16usize;
            let per = rounds * n; // per task; total = 16*rounds*n, divisible by n
            let mut hs = vec![];
            for t in 0..tasks {
                let state = state.clone();
                let lb = lb.clone();
                let mut r = Rng::new(args.seed * 1000 + t as u64);
                hs.push(tokio::spawn(async move {
                    for _ in 0..per {
                        let ctx = make_ctx(&state, &rand_req(&mut r)).await;
                        let _ = lb.clone().connect(state.clone(), ctx).await;
                        if r.chance(1, 8) {
                            tokio::task::yield_now().await;
                        }
                    }
                }));
            }
            for h in hs {
                let _ = h.await;
            }
            let totals: Vec<usize> = recs.iter().map(|r| r.count()).collect();
            out.case();
            out.count("concurrent_selections", (tasks * per) as u64);
            let k = tasks * per / n;
            if totals.iter().any(|&t| t != k) {
                out.violation(
                    "round robin: concurrent selections are not shared exactly evenly".into(),
                    serde_json::json!({"n": n, "selections": tasks * per, "per_member": totals, "expected_each": k}),
                );
            }
            out.nontrivial(&("rr-concurrent", n));
            if n == 3 {
                out.sample(serde_json::json!({"algo": "rr", "n": n, "sequential_prefix": &order[..order.len().min(9)], "concurrent_totals": totals}));
            }
        }
        // ---------------- hash by
        for key in KEYS {
            let recs = members(n);
            let lbv = serde_json::json!({"name": "lb", "type": "loadbalance", "connectors": names, "algo": {"hashBy": key}});
            let state = match make_state(&recs, &[lbv]).await {
                Ok(s) => s,
                Err(e) => {
                    out.case();
                    out.violation("hashBy: a key expression of string type is rejected".into(), serde_json::json!({"key": key, "error": e.to_string()}));
                    continue;
                }
            };
            let lb = state.connectors.get("lb").unwrap().clone();
            let mut by_key: HashMap<String, usize> = HashMap::new();
            // request pool with many repeated keys, including equal strings from different representations
            let mut pool: Vec<Req> = (0..24).map(|_| rand_req(&mut rng)).collect();
            for i in 0..6 {
                let mut a = pool[i].clone();
                a.target = TargetAddress::SocketAddr(format!("10.1.2.{}:8001", i).parse().unwrap());
                let mut b = pool[i + 6].clone();
                b.target = TargetAddress::DomainPort(format!("10.1.2.{}", i), 8001);
                b.listener = a.listener.clone();
                b.source = a.source;
                pool.push(a);
                pool.push(b);
            }
            for _ in 0..(rounds * 6) {
                out.case();
                let req = rng.pick(&pool).clone();
                let k = key_of(key, &req);
                let ctx = make_ctx(&state, &req).await;
                let id = ctx.read().await.props().id;
                let res = lb.clone().connect(state.clone(), ctx.clone()).await;
                let hit: Vec<usize> = recs.iter().enumerate().filter(|(_, r)| r.take().contains(&id)).map(|(i, _)| i).collect();
                if hit.len() != 1 {
                    out.violation("hashBy: a selection ran connect on zero or several members".into(), serde_json::json!({"key": key, "n": n, "hit": hit, "error": res.err().map(|e| e.to_string())}));
                    break;
                }
                let rec = ctx.read().await.props().connector.clone();
                if rec.as_deref() != Some(names[hit[0]].as_str()) {
                    out.violation("recorded connector differs from the member whose connect ran".into(), serde_json::json!({"algo": "hashBy", "n": n, "recorded": rec, "used": names[hit[0]]}));
                }
                match by_key.get(&k) {
                    Some(&m) if m != hit[0] => {
                        out.violation(
                            "hashBy: two requests with the same key value were sent to different members".into(),
                            serde_json::json!({"key_expr": key, "key_value": k, "n": n, "members": [names[m], names[hit[0]]], "target": format!("{:?}", req.target)}),
                        );
                        break;
                    }
                    _ => {
                        by_key.insert(k, hit[0]);
                    }
                }
            }
            // the same law when the selections run on many worker threads at once: the member chosen for a key value is a function
            // of the value alone - not of the task, the thread or the moment - and agrees with the sequential selections above
            if n >= 2 {
                let seen: Arc<Mutex<Vec<(String, Option<String>)>>> = Arc::new(Mutex::new(vec![]));
                let mut hs = vec![];
                for t in 0..16u64 {
                    let state = state.clone();
                    let lb = lb.clone();
                    let pool = pool.clone();
                    let seen = seen.clone();
                    let key = key.to_string();
                    let mut r = Rng::new(args.seed * 7919 + t);
                    hs.push(tokio::spawn(async move {
                        for _ in 0..40 {
                            let req = r.pick(&pool).clone();
                            let k = key_of(&key, &req);
                            let ctx = make_ctx(&state, &req).await;
                            let _ = lb.clone().connect(state.clone(), ctx.clone()).await;
                            let rec = ctx.read().await.props().connector.clone();
                            seen.lock().unwrap().push((k, rec));
                            if r.chance(1, 4) {
                                tokio::task::yield_now().await;
                            }
                        }
                    }));
                }
                for h in hs {
                    let _ = h.await;
                }
                for r in &recs {
                    r.take();
                }
                out.case();
                let seen = seen.lock().unwrap();
                out.count("concurrent_hashby_selections", seen.len() as u64);
                let mut conc: HashMap<String, String> = HashMap::new();
                for (k, rec) in seen.iter() {
                    let m = rec.clone().unwrap_or_default();
                    let prior = by_key.get(k).map(|&i| names[i].clone()).or_else(|| conc.get(k).cloned());
                    match prior {
                        Some(p) if p != m => {
                            out.violation(
                                "hashBy: two requests with the same key value were sent to different members (selections running concurrently on several worker threads)".into(),
                                serde_json::json!({"key_expr": key, "key_value": k, "n": n, "members": [p, m]}),
                            );
                            break;
                        }
                        _ => {
                            conc.insert(k.clone(), m);
                        }
                    }
                }
                out.nontrivial(&("hashBy-concurrent", n, key));
            }
            out.nontrivial(&("hashBy", n, key));
            if n == 4 && *key == "request.target" {
                out.sample(serde_json::json!({"algo": "hashBy", "key": key, "n": n, "distinct_keys": by_key.len()}));
            }
        }
        // ---------------- random
        {
            let recs = members(n);
            let lbv = serde_json::json!({"name": "lb", "type": "loadbalance", "connectors": names, "algo": "random"});
            let state = make_state(&recs, &[lbv]).await.unwrap();
            let lb = state.connectors.get("lb").unwrap().clone();
            let draws = 1000 * n;
            for _ in 0..draws {
                out.case();
                let ctx = make_ctx(&state, &rand_req(&mut rng)).await;
                let id = ctx.read().await.props().id;
                let _ = lb.clone().connect(state.clone(), ctx.clone()).await;
                let hit: Vec<usize> = recs.iter().enumerate().filter(|(_, r)| r.calls.lock().unwrap().contains(&id)).map(|(i, _)| i).collect();
                if hit.len() != 1 {
                    out.violation("random: a selection ran connect on zero or several members".into(), serde_json::json!({"n": n, "hit": hit}));
                    break;
                }
                let rec = ctx.read().await.props().connector.clone();
                if rec.as_deref() != Some(names[hit[0]].as_str()) {
                    out.violation("recorded connector differs from the member whose connect ran".into(), serde_json::json!({"algo": "random", "n": n, "recorded": rec, "used": names[hit[0]]}));
                    break;
                }
            }
            let totals: Vec<usize> = recs.iter().map(|r| r.count()).collect();
            if totals.iter().any(|&t| t == 0) || totals.iter().sum::<usize>() != draws {
                out.violation("random: a member was never selected in 1000*n draws (or selections went elsewhere)".into(), serde_json::json!({"n": n, "per_member": totals}));
            }
            out.nontrivial(&("random", n));
        }
    }
    // nested balancers: selection stays inside the configured members
    {
        out.case();
        let recs = members(4);
        let inner = serde_json::json!({"name": "inner", "type": "loadbalance", "connectors": ["m2", "m3"], "algo": "rr"});
        let outer = serde_json::json!({"name": "lb", "type": "loadbalance", "connectors": ["m0", "inner"], "algo": "rr"});
        let state = make_state(&recs, &[inner, outer]).await.unwrap();
        let lb = state.connectors.get("lb").unwrap().clone();
        for _ in 0..400 {
            let ctx = make_ctx(&state, &rand_req(&mut rng)).await;
            let _ = lb.clone().connect(state.clone(), ctx).await;
        }
        let totals: Vec<usize> = recs.iter().map(|r| r.count()).collect();
        if totals != vec![200, 0, 100, 100] {
            out.violation("nested round robin: selections leave the configured members or are not shared evenly".into(), serde_json::json!({"per_member": totals, "expected": [200, 0, 100, 100]}));
        }
        out.nontrivial(&"nested");
    }
    // nested hash-by balancers with DIFFERENT key expressions: the inner selection is a function of the inner key only
    {
        out.case();
        let recs = members(6);
        let in0 = serde_json::json!({"name": "in0", "type": "loadbalance", "connectors": ["m0", "m1", "m2"], "algo": {"hashBy": "to_string(request.target.port)"}});
        let in1 = serde_json::json!({"name": "in1", "type": "loadbalance", "connectors": ["m3", "m4", "m5"], "algo": {"hashBy": "to_string(request.target.port)"}});
        let outer = serde_json::json!({"name": "lb", "type": "loadbalance", "connectors": ["in0", "in1"], "algo": {"hashBy": "request.target.host"}});
        match make_state(&recs, &[in0, in1, outer]).await {
            Ok(state) => {
                let lb = state.connectors.get("lb").unwrap().clone();
                // (inner balancer, port) -> members seen
                let mut seen: std::collections::HashMap<(usize, u16), std::collections::HashSet<usize>> = Default::default();
                for i in 0..600 {
                    let mut rq = rand_req(&mut rng);
                    let port = [80u16, 443, 8080, 53][i % 4];
                    rq.target = TargetAddress::DomainPort(format!("host{}.example", i % 37), port);
                    let ctx = make_ctx(&state, &rq).await;
                    let id = ctx.read().await.props().id;
                    let _ = lb.clone().connect(state.clone(), ctx).await;
                    for (mi, r) in recs.iter().enumerate() {
                        if r.take().contains(&id) {
                            seen.entry((mi / 3, port)).or_default().insert(mi);
                        }
                    }
                }
                let bad: Vec<_> = seen.iter().filter(|(_, v)| v.len() > 1).map(|(k, v)| serde_json::json!({"inner": k.0, "port": k.1, "members": v.iter().collect::<Vec<_>>()})).collect();
                if !bad.is_empty() {
                    out.violation("nested hashBy: requests with the same inner key were sent to different members of the inner balancer".into(), serde_json::json!({"examples": bad.into_iter().take(4).collect::<Vec<_>>()}));
                }
                if seen.keys().map(|k| k.0).collect::<std::collections::HashSet<_>>().len() < 2 {
                    out.inconclusive += 1;
                }
                out.nontrivial(&"nested-hashby");
            }
            Err(e) => out.violation("nested hashBy balancers are rejected".into(), serde_json::json!(e.to_string())),
        }
    }
    // the same hash-by balancer reached directly and as a member of another balancer: the member chosen for a key is the same
    {
        out.case();
        let recs = members(3);
        let pool = serde_json::json!({"name": "pool", "type": "loadbalance", "connectors": ["m0", "m1", "m2"], "algo": {"hashBy": "request.target.host"}});
        let front = serde_json::json!({"name": "front", "type": "loadbalance", "connectors": ["pool"], "algo": "rr"});
        let front2 = serde_json::json!({"name": "front2", "type": "loadbalance", "connectors": ["front"], "algo": "random"});
        match make_state(&recs, &[pool, front, front2]).await {
            Ok(state) => {
                let mut by_key: std::collections::HashMap<String, std::collections::HashSet<usize>> = Default::default();
                for i in 0..300 {
                    let mut rq = rand_req(&mut rng);
                    let host = format!("k{}.example", i % 23);
                    rq.target = TargetAddress::DomainPort(host.clone(), 443);
                    let entry = ["pool", "front", "front2"][i % 3];
                    let lb = state.connectors.get(entry).unwrap().clone();
                    let ctx = make_ctx(&state, &rq).await;
                    let id = ctx.read().await.props().id;
                    let _ = lb.connect(state.clone(), ctx).await;
                    for (mi, r) in recs.iter().enumerate() {
                        if r.take().contains(&id) {
                            by_key.entry(host.clone()).or_default().insert(mi);
                        }
                    }
                }
                let bad: Vec<_> = by_key.iter().filter(|(_, v)| v.len() > 1).map(|(k, v)| serde_json::json!({"key": k, "members": v.iter().collect::<Vec<_>>()})).collect();
                if !bad.is_empty() {
                    out.violation("hashBy: the member chosen for a key depends on the path by which the balancer was reached".into(), serde_json::json!({"examples": bad.into_iter().take(4).collect::<Vec<_>>()}));
                }
                out.nontrivial(&"hashby-reached-at-several-depths");
            }
            Err(e) => out.violation("a hash-by balancer nested in other balancers is rejected".into(), serde_json::json!(e.to_string())),
        }
    }
    out.finish();
}
