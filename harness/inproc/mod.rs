// In-process monitors for redproxy-rs, compiled into the binary through hook H1
// (src/main.rs: `mod verif_hooks { include!(concat!(env!("REDPROXY_VERIF_DIR"), "/inproc/mod.rs")); }`).
// Being a child module of the crate root, this code can reach the crate's private items.
// Run as:  REDPROXY_VERIF_INPROC=<monitor> redproxy-rs --seed N --tier quick|thorough

#[path = "util.rs"]
pub mod util;

#[path = "c09.rs"]
mod c09;
#[path = "c08.rs"]
mod c08;
#[path = "c11.rs"]
mod c11;
#[path = "c12.rs"]
mod c12;
#[path = "c05.rs"]
mod c05;
#[path = "rec.rs"]
mod rec;
#[path = "c02.rs"]
mod c02;
#[path = "c17.rs"]
mod c17;
#[path = "c15.rs"]
mod c15;
#[path = "c03.rs"]
mod c03;
#[cfg(feature = "quic")]
#[path = "quicup.rs"]
mod quicup;

pub async fn main(monitor: String) -> Result<(), easy_error::Terminator> {
    let args = util::Args::parse();
    util::install_panic_hook();
    match monitor.as_str() {
        "c09" => c09::run(&args),
        "c08" => c08::run(&args),
        "c08depth" => c08::run_depth(&args),
        "c11" => c11::run(&args),
        "c12" => c12::run(&args).await,
        "c05" => c05::run(&args).await,
        "c02" => c02::run(&args).await,
        "c17" => c17::run(&args).await,
        "c15" => c15::run(&args).await,
        "c03" => c03::run(&args).await,
        #[cfg(feature = "quic")]
        "quicup" => quicup::run(&args).await,
        other => {
            eprintln!("unknown monitor {}", other);
            std::process::exit(3);
        }
    }
    Ok(())
}
