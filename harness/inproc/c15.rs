// C15 (in-process part) — rule replacement is atomic and all-or-nothing.
// One task replaces the rule list at full speed (valid and invalid lists) while 16 tasks run the real
// process_request; every decision must be the decision of ONE list that was current at some instant of
// the request's interval (single-register linearizability with versioned lists); failed replacements
// must leave the list and the decisions untouched.
use super::rec::*;
use super::util::*;
use crate::context::{Feature, TargetAddress};
use std::sync::atomic::{AtomicBool, AtomicU64, Ordering};
use std::sync::{Arc, Mutex};
use std::time::Instant;

const K: u64 = 8;

fn probe() -> Req {
    Req { listener: "probe".into(), source: "127.0.0.1:9".parse().unwrap(), target: TargetAddress::DomainPort("probe.example".into(), 80), feature: Feature::TcpForward }
}

// version v: [ P_v -> a(v%K), <12 padding rules that never match>, true -> z(v%K) ]
// P_v is true for the probe when v is even. A torn evaluation (rule i of one version, rule j of another)
// yields z(v%K) with P_v true, or a(..) of the wrong version - neither is any single list's decision.
fn list(v: u64) -> Vec<serde_json::Value> {
    let p = if v % 2 == 0 { "request.listener == \"probe\"" } else { "request.listener == \"nobody\"" };
    // every third version carries a long first filter (a block list of a few kilobytes that never matches the probe): rules
    // that differ in size are the ones an implementation might treat differently (compile elsewhere, finish later)
    let p = if v % 3 == 0 {
        let hosts: Vec<String> = (0..(60 + 40 * (v % 7))).map(|i| format!("\"blocked-{}.example\"", i)).collect();
        format!("({}) || request.target.host _: [{}]", p, hosts.join(", "))
    } else {
        p.to_string()
    };
    let mut l = vec![serde_json::json!({"filter": p, "target": format!("a{}", v % K)})];
    // the lists differ in length (14, 12, .. 6 rules), and every fourth one has no catch-all at its end: whatever an
    // implementation keeps of a longer predecessor then decides the probe, which no version does
    for i in 0..(12 - 2 * (v % 5)) {
        l.push(serde_json::json!({"filter": format!("request.target.port == {}", 1000 + i), "target": "pad"}));
    }
    if v % 4 != 3 {
        l.push(serde_json::json!({"target": format!("z{}", v % K)}));
    }
    l
}

/// "" = the probe matches no rule of that version: refused, no connector
fn decision(v: u64) -> String {
    if v % 2 == 0 { format!("a{}", v % K) } else if v % 4 == 3 { String::new() } else { format!("z{}", v % K) }
}

fn expected_used(v: u64) -> Vec<String> {
    let d = decision(v);
    if d.is_empty() { vec![] } else { vec![d] }
}

fn bad_list(r: &mut Rng, v: u64) -> (Vec<serde_json::Value>, &'static str) {
    let mut l = list(v);
    // anywhere, also behind the unconditional last rule; sometimes behind an extra unconditional rule in the middle
    if r.chance(1, 3) {
        let at = r.below(l.len());
        l.insert(at, serde_json::json!({"target": "pad"}));
    }
    let pos = r.below(l.len() + 1);
    let (bad, kind) = match r.below(8) {
        // the offending rule may as well be a deny rule: it is validated like every other rule
        5 => (serde_json::json!({"filter": "request.listener == ", "target": "deny"}), "syntax error in a deny rule"),
        6 => (serde_json::json!({"filter": "request.target.port + 1", "target": "deny"}), "type error (not boolean) in a deny rule"),
        7 => (serde_json::json!({"filter": "request.nosuch == 1", "target": "deny"}), "type error (unknown field) in a deny rule"),
        0 => (serde_json::json!({"filter": "request.listener == ", "target": "a0"}), "syntax error"),
        1 => (serde_json::json!({"filter": "request.target.port + 1", "target": "a0"}), "type error (not boolean)"),
        2 => (serde_json::json!({"filter": "request.nosuch == 1", "target": "a0"}), "type error (unknown field)"),
        3 => (serde_json::json!({"filter": "request.target.port == 7", "target": "no-such-upstream"}), "unknown target"),
        _ => (serde_json::json!({"target": "no-such-upstream"}), "unknown target"),
    };
    l.insert(pos, bad);
    (l, kind)
}

pub async fn run(args: &Args) {
    let mut out = Out::new(
        "C15",
        "c15-inproc",
        "versioned rule lists (14 rules) replaced through the real set_rules at full speed, interleaved with invalid lists (syntax error, type error, unknown target at a random position), while 16 tasks run process_request on the multi-thread runtime; each decision is checked against the versions current during its interval; sequential all-or-nothing checks before/after every failed replacement. distinct = distinct (version window, decision) pairs of requests that overlapped a replacement",
    );
    let mut rng = Rng::new(args.seed);
    let mut recs = vec![RecConnector::new("pad", &[Feature::TcpForward])];
    for i in 0..K {
        recs.push(RecConnector::new(&format!("a{}", i), &[Feature::TcpForward]));
        recs.push(RecConnector::new(&format!("z{}", i), &[Feature::TcpForward]));
    }
    let state = make_state(&recs, &[]).await.unwrap();
    state.set_rules(rules_from(&list(0)).unwrap()).await.unwrap();

    // ---------------- sequential all-or-nothing
    let mut cur = 0u64;
    for i in 0..args.n(300, 20_000) {
        out.case();
        let before = serde_json::to_string(&*state.rules().await).unwrap();
        let (bad, kind) = bad_list(&mut rng, cur + 1);
        let res = match rules_from(&bad) {
            Ok(r) => state.set_rules(r).await,
            Err(e) => Err(e),
        };
        if res.is_ok() {
            out.violation(format!("invalid rule list accepted ({})", kind), serde_json::json!({"rules": bad}));
            state.set_rules(rules_from(&list(cur)).unwrap()).await.unwrap();
            continue;
        }
        let after = serde_json::to_string(&*state.rules().await).unwrap();
        // stats counters move with evaluations, compare modulo them
        let strip = |s: &str| -> String { let v: serde_json::Value = serde_json::from_str(s).unwrap(); serde_json::to_string(&v.as_array().unwrap().iter().map(|r| serde_json::json!([r["target"], r["filter"]])).collect::<Vec<_>>()).unwrap() };
        let ctx = make_ctx(&state, &probe()).await;
        let id = ctx.read().await.props().id;
        crate::process_request(ctx, state.clone()).await;
        let used: Vec<String> = recs.iter().filter(|r| r.take().contains(&id)).map(|r| r.name.clone()).collect();
        if strip(&before) != strip(&after) || used != expected_used(cur) {
            out.violation(
                format!("rejected replacement ({}) changed the rule list or a later decision", kind),
                serde_json::json!({"rejected_rules": bad, "rules_before": strip(&before), "rules_after": strip(&after), "decision_after": used, "decision_of_old_list": decision(cur)}),
            );
            state.set_rules(rules_from(&list(cur)).unwrap()).await.unwrap();
        }
        out.nontrivial(&("reject", kind, i % 16));
        // a valid replacement takes effect for the next request
        if i % 3 == 0 {
            out.case();
            cur += 1;
            if let Err(e) = state.set_rules(rules_from(&list(cur)).unwrap()).await {
                out.violation("valid rule list rejected".into(), serde_json::json!(e.to_string()));
            }
            let ctx = make_ctx(&state, &probe()).await;
            let id = ctx.read().await.props().id;
            crate::process_request(ctx, state.clone()).await;
            let used: Vec<String> = recs.iter().filter(|r| r.take().contains(&id)).map(|r| r.name.clone()).collect();
            if used != expected_used(cur) {
                out.violation("request begun after a successful replacement is decided by an older list".into(), serde_json::json!({"version": cur, "decision": used, "expected": decision(cur)}));
            }
            // the installed list is the posted one, rule for rule
            {
                let strip_v = |v: &serde_json::Value| -> String { serde_json::to_string(&v.as_array().unwrap().iter().map(|r| serde_json::json!([r["target"], r.get("filter").cloned().unwrap_or(serde_json::Value::Null)])).collect::<Vec<_>>()).unwrap() };
                let installed: serde_json::Value = serde_json::from_str(&serde_json::to_string(&*state.rules().await).unwrap()).unwrap();
                let posted = serde_json::Value::Array(list(cur));
                if strip_v(&installed) != strip_v(&posted) {
                    out.violation("rule list in force after a successful replacement is not the posted one".into(), serde_json::json!({"posted_rules": posted.as_array().unwrap().len(), "installed_rules": installed.as_array().unwrap().len()}));
                }
            }
            // GET -> POST of the same document leaves behaviour unchanged
            let doc = serde_json::to_string(&*state.rules().await).unwrap();
            let rt: Result<Vec<Arc<crate::rules::Rule>>, _> = serde_json::from_str(&doc);
            match rt {
                Ok(rules) => {
                    if let Err(e) = state.set_rules(rules).await {
                        out.violation("posting back the rules just read is rejected".into(), serde_json::json!(e.to_string()));
                    }
                    let ctx = make_ctx(&state, &probe()).await;
                    let id = ctx.read().await.props().id;
                    crate::process_request(ctx, state.clone()).await;
                    let used: Vec<String> = recs.iter().filter(|r| r.take().contains(&id)).map(|r| r.name.clone()).collect();
                    if used != expected_used(cur) {
                        out.violation("read-then-post of the unchanged rules changed a decision".into(), serde_json::json!({"decision": used, "expected": decision(cur)}));
                    }
                }
                Err(e) => out.violation("rules document read from the API does not deserialize".into(), serde_json::json!(e.to_string())),
            }
        }
    }

    // ---------------- concurrent flipping
    let t0 = Instant::now();
    let ns = move || t0.elapsed().as_nanos() as u64;
    let stop = Arc::new(AtomicBool::new(false));
    let version = Arc::new(AtomicU64::new(cur));
    // writer log: (v, t_call, t_ret)
    let wlog: Arc<Mutex<Vec<(u64, u64, u64)>>> = Arc::new(Mutex::new(vec![(cur, 0, 0)]));
    let n_dec = args.n(120_000, 6_000_000);
    let writer = {
        let state = state.clone();
        let stop = stop.clone();
        let wlog = wlog.clone();
        let version = version.clone();
        let mut r = Rng::new(args.seed ^ 77);
        tokio::spawn(async move {
            let mut v = version.load(Ordering::SeqCst);
            while !stop.load(Ordering::SeqCst) {
                if r.chance(1, 4) {
                    let (bad, _) = bad_list(&mut r, v + 1);
                    if let Ok(rules) = rules_from(&bad) {
                        let _ = state.set_rules(rules).await;
                    }
                } else {
                    v += 1;
                    let rules = rules_from(&list(v)).unwrap();
                    let t1 = ns();
                    let ok = state.set_rules(rules).await.is_ok();
                    let t2 = ns();
                    if ok {
                        wlog.lock().unwrap().push((v, t1, t2));
                    }
                }
                if r.chance(1, 3) {
                    tokio::task::yield_now().await;
                }
            }
        })
    };
    let mut readers = vec![];
    let rlog: Arc<Mutex<Vec<(u64, u64, u64)>>> = Arc::new(Mutex::new(vec![])); // (ctx id, t_start, t_end)
    for _ in 0..16 {
        let state = state.clone();
        let rlog = rlog.clone();
        readers.push(tokio::spawn(async move {
            let mut local = vec![];
            for _ in 0..(n_dec / 16) {
                let ctx = make_ctx(&state, &probe()).await;
                let id = ctx.read().await.props().id;
                let t1 = ns();
                crate::process_request(ctx, state.clone()).await;
                let t2 = ns();
                local.push((id, t1, t2));
            }
            rlog.lock().unwrap().extend(local);
        }));
    }
    for h in readers {
        let _ = h.await;
    }
    stop.store(true, Ordering::SeqCst);
    let _ = writer.await;
    // join: ctx id -> connector
    let mut used: std::collections::HashMap<u64, Vec<String>> = std::collections::HashMap::new();
    for r in &recs {
        for id in r.take() {
            used.entry(id).or_default().push(r.name.clone());
        }
    }
    let w = wlog.lock().unwrap().clone();
    let reqs = rlog.lock().unwrap().clone();
    let mut overlapped = 0u64;
    let mut torn = 0u64;
    for (id, t1, t2) in &reqs {
        out.case();
        let got = used.get(id).cloned().unwrap_or_default();
        // candidate versions: the last whose replacement returned before t1, and all whose interval overlaps [t1,t2]
        let mut last_before = 0usize;
        for (i, (_, _, ret)) in w.iter().enumerate() {
            if *ret <= *t1 {
                last_before = i;
            }
        }
        let mut cands = vec![w[last_before].0];
        for (v, call, ret) in w.iter().skip(last_before + 1) {
            if *call <= *t2 && *ret >= *t1 || (*call <= *t2 && *call >= *t1) {
                cands.push(*v);
            }
            if *call > *t2 {
                break;
            }
        }
        if cands.len() > 1 {
            overlapped += 1;
            out.nontrivial(&(cands.clone(), got.clone()));
        }
        let legal: Vec<String> = cands.iter().map(|v| decision(*v)).collect();
        let got_d = if got.is_empty() { String::new() } else { got[0].clone() };
        if got.len() > 1 || !legal.contains(&got_d) {
            torn += 1;
            out.violation(
                "request decided by no single rule list that was current during it (torn or stale rules)".into(),
                serde_json::json!({"decision": got, "candidate_versions": cands, "their_decisions": legal, "interval_ns": [t1, t2]}),
            );
        }
    }
    out.set("decisions_under_concurrent_replacement", serde_json::json!(reqs.len()));
    out.set("successful_replacements", serde_json::json!(w.len()));
    out.set("requests_overlapping_a_replacement", serde_json::json!(overlapped));
    out.set("torn", serde_json::json!(torn));
    out.sample(serde_json::json!({"versions": w.len(), "requests": reqs.len(), "overlapping": overlapped, "example_list": list(2)}));
    if overlapped == 0 {
        out.inconclusive += 1;
    }
    out.finish();
}
