// C11 — fragmentation / reassembly exactness (real make_fragments -> permuted/duplicated/interleaved
// feed -> real reassemble), with malformed feeds, id reuse and timer expiry. Also serves C05 for the
// fragment-header grid (no panic on any (total, seq, len)).
use super::util::*;
use crate::common::fragment::{Fragmentable, Fragments};
use crate::common::frames::Frame;
use crate::context::TargetAddress;
use bytes::{Buf, Bytes};
use std::collections::HashMap;
use std::time::Duration;

#[derive(Debug, PartialEq, Eq, Clone)]
pub struct Raw(pub Bytes);
impl Fragmentable for Raw {
    type Buffer = Bytes;
    fn as_buffer(&self) -> Bytes {
        self.0.clone()
    }
    fn from_buffer(buf: Bytes) -> Option<Self> {
        Some(Raw(buf))
    }
}

fn flat<B: Buf>(mut b: B) -> Vec<u8> {
    let mut v = Vec::with_capacity(b.remaining());
    while b.has_remaining() {
        let c = b.chunk();
        let n = c.len();
        v.extend_from_slice(c);
        b.advance(n);
    }
    v
}

fn mk_frame(r: &mut Rng, body_len: usize) -> Frame {
    let mut f = Frame::from_body(Bytes::from(r.bytes(body_len)));
    f.session_id = r.next() as u32;
    f.addr = match r.below(4) {
        0 => None,
        1 => Some(TargetAddress::SocketAddr("1.2.3.4:53".parse().unwrap())),
        2 => Some(TargetAddress::SocketAddr("[2001:db8::1]:443".parse().unwrap())),
        _ => Some(TargetAddress::DomainPort("example.com".into(), 8053)),
    };
    f
}

pub trait Thing: Fragmentable + Sized {
    fn bytes(&self) -> Vec<u8>;
    fn make(r: &mut Rng, len: usize) -> Self;
    const NAME: &'static str;
}
impl Thing for Raw {
    fn bytes(&self) -> Vec<u8> {
        self.0.to_vec()
    }
    fn make(r: &mut Rng, len: usize) -> Self {
        Raw(Bytes::from(r.bytes(len.max(1))))
    }
    const NAME: &'static str = "raw";
}
impl Thing for Frame {
    fn bytes(&self) -> Vec<u8> {
        flat(self.as_buffer())
    }
    fn make(r: &mut Rng, len: usize) -> Self {
        mk_frame(r, len.min(65535))
    }
    const NAME: &'static str = "frame";
}

/// split with the real make_fragments; checks the fragment-level contract; None = refused/unrepresentable
fn split<T: Thing>(out: &mut Out, mtu: usize, next_id: &mut u16, thing: T, orig: &[u8]) -> Option<Vec<Bytes>>
where
    T::Buffer: Buf,
{
    let id = *next_id;
    let need = (orig.len() + (mtu - 4) - 1) / (mtu - 4);
    let frags = match guard(|| Fragments::<T>::make_fragments(mtu, next_id, thing).collect::<Vec<Bytes>>()) {
        Ok(f) => f,
        Err(p) => {
            out.violation(
                format!("split: {} ({} fragments needed{})", p.sig(), if need > 127 { ">127" } else { "<=127" }, ""),
                serde_json::json!({"len": orig.len(), "mtu": mtu, "panic": p.msg}),
            );
            return None;
        }
    };
    if need > 127 {
        // not representable in the wire format (7-bit bitmap / u8 counters): refusing (no fragments) is the
        // only correct behaviour; emitting fragments whose header lies about the total is not
        out.count("unrepresentable_cells", 1);
        if !frags.is_empty() {
            out.violation(
                "split: frame needing >127 fragments is emitted with a wrapped fragment count instead of being refused".into(),
                serde_json::json!({"len": orig.len(), "mtu": mtu, "fragments_emitted": frags.len(), "needed": need}),
            );
        }
        return None;
    }
    let mut cat = vec![];
    for (i, f) in frags.iter().enumerate() {
        let bad = f.len() < 4 || f.len() > mtu || u16::from_be_bytes([f[0], f[1]]) != id || f[2] as usize != need || f[3] as usize != i;
        if bad {
            out.violation("split: fragment header/size contract broken".into(), serde_json::json!({"len": orig.len(), "mtu": mtu, "index": i, "fragment_head": hex(&f[..f.len().min(8)])}));
            return None;
        }
        cat.extend_from_slice(&f[4..]);
    }
    if frags.len() != need || cat != orig {
        out.violation("split: concatenated fragment payloads differ from the frame".into(), serde_json::json!({"len": orig.len(), "mtu": mtu, "fragments": frags.len(), "needed": need}));
        return None;
    }
    Some(frags)
}

fn feed<T: Thing>(out: &mut Out, f: &mut Fragments<T>, frag: Bytes, ctxs: &str) -> Result<Option<Vec<u8>>, ()>
where
    T::Buffer: Buf,
{
    let head = hex(&frag[..frag.len().min(6)]);
    let len = frag.len();
    match guard(|| f.reassemble(frag).map(|t| t.bytes())) {
        Ok(v) => Ok(v),
        Err(p) => {
            out.violation(format!("reassemble: {} [{}]", p.sig(), ctxs), serde_json::json!({"fragment_head": head, "fragment_len": len, "panic": p.msg}));
            Err(())
        }
    }
}

fn permutations(n: usize) -> Vec<Vec<usize>> {
    fn go(cur: &mut Vec<usize>, used: &mut Vec<bool>, n: usize, out: &mut Vec<Vec<usize>>) {
        if cur.len() == n {
            out.push(cur.clone());
            return;
        }
        for i in 0..n {
            if !used[i] {
                used[i] = true;
                cur.push(i);
                go(cur, used, n, out);
                cur.pop();
                used[i] = false;
            }
        }
    }
    let mut out = vec![];
    go(&mut vec![], &mut vec![false; n], n, &mut out);
    out
}

/// honest history: several frames (distinct ids), an order over the multiset of their fragments plus duplicates
fn honest<T: Thing>(out: &mut Out, r: &mut Rng, sizes: &[(usize, usize)], order: Option<&[usize]>, dups: usize, key: &str)
where
    T::Buffer: Buf,
{
    out.case();
    let mut next_id: u16 = if r.chance(1, 4) { 65535 - r.below(3) as u16 } else { r.next() as u16 };
    let mut origs: Vec<Vec<u8>> = vec![];
    let mut all: Vec<(usize, Bytes)> = vec![];
    for (k, (len, mtu)) in sizes.iter().enumerate() {
        let thing = T::make(r, *len);
        let o = thing.bytes();
        match split::<T>(out, *mtu, &mut next_id, thing, &o) {
            Some(fr) => {
                for f in fr {
                    all.push((k, f));
                }
                origs.push(o);
            }
            None => return,
        }
    }
    let mut seq: Vec<(usize, Bytes)> = match order {
        Some(p) if p.len() == all.len() => p.iter().map(|&i| all[i].clone()).collect(),
        Some(_) => {
            let mut v = all.clone();
            r.shuffle(&mut v);
            v
        }
        None => {
            let mut v = all.clone();
            r.shuffle(&mut v);
            v
        }
    };
    for _ in 0..dups {
        let d = all[r.below(all.len())].clone();
        let at = r.below(seq.len() + 1);
        seq.insert(at, d);
    }
    let nfr = all.len();
    let mut f = Fragments::<T>::new(Duration::from_secs(60));
    let mut emitted: Vec<Vec<u8>> = vec![];
    let mut seen: HashMap<(usize, u8), ()> = HashMap::new();
    let mut done = vec![false; origs.len()];
    for (k, frag) in seq.iter() {
        if done[*k] && !seen.contains_key(&(*k, 255)) {
            // first fragment after completion starts a new round of bookkeeping for redelivery detection
            seen.retain(|(kk, _), _| kk != k);
            seen.insert((*k, 255), ());
        }
        let fresh = seen.insert((*k, frag[3]), ()).is_none();
        let complete_now = fresh && !done[*k] && (0..frag[2]).all(|s| seen.contains_key(&(*k, s)));
        let got = match feed(out, &mut f, frag.clone(), T::NAME) {
            Ok(g) => g,
            Err(_) => return,
        };
        if complete_now {
            done[*k] = true;
        }
        match (&got, complete_now) {
            (Some(b), true) if b == &origs[*k] => emitted.push(b.clone()),
            (None, false) => {}
            (Some(b), false) if done[*k] && b == &origs[*k] => {
                // every fragment of an already delivered frame arrived again: the implementation keeps no
                // memory of completed ids (recorded finding); keep checking the rest of the history
                out.violation(
                    "reassemble: a completed frame is delivered again when all of its fragments are duplicated (no memory of completed ids)".into(),
                    serde_json::json!({"kind": T::NAME, "case": key, "sizes": sizes, "fragments_of_frame": frag[2]}),
                );
                seen.retain(|(kk, _), _| kk != k);
            }
            (Some(b), _) => {
                let which = origs.iter().position(|o| o == b);
                out.violation(
                    format!("reassemble[{}]: {}", T::NAME, if which.is_some() { "a frame is emitted although it is not complete at this point / emitted twice" } else { "emitted bytes are none of the original frames" }),
                    serde_json::json!({"case": key, "sizes": sizes, "fed_so_far": emitted.len(), "emitted_len": b.len()}),
                );
                return;
            }
            (None, true) => {
                out.violation(format!("reassemble[{}]: complete frame not emitted", T::NAME), serde_json::json!({"case": key, "sizes": sizes, "fragments": nfr, "dups": dups}));
                return;
            }
        }
    }
    if nfr > 1 {
        out.nontrivial(&(T::NAME, key, sizes.to_vec(), seq.iter().map(|(k, f)| (*k, f[3])).collect::<Vec<_>>()));
    }
    let pend = f.verif_pending();
    // all frames complete and no late duplicate after completion => nothing may stay queued
    if pend.0 != 0 && dups == 0 {
        out.violation(format!("reassemble[{}]: completed history leaves entries in the queue", T::NAME), serde_json::json!({"case": key, "pending": [pend.0, pend.1]}));
    }
    if out.want_sample() && nfr >= 3 {
        out.sample(serde_json::json!({"kind": T::NAME, "frames(len,mtu)": sizes, "feed(frame,seq)": seq.iter().map(|(k, f)| (*k, f[3])).collect::<Vec<_>>(), "emitted": emitted.len()}));
    }
}

/// adversarial feed: arbitrary headers against the harness reference reassembler
fn adversarial(out: &mut Out, r: &mut Rng) {
    out.case();
    let mut f = Fragments::<Raw>::new(Duration::from_secs(60));
    let mut model: HashMap<u16, (u8, Vec<Option<Vec<u8>>>)> = HashMap::new();
    let n = 2 + r.below(14);
    let mut fed: Vec<(u16, u8, u8, usize)> = vec![];
    let ids = [r.next() as u16, r.next() as u16];
    for _ in 0..n {
        let id = *r.pick(&ids);
        let total = *r.pick(&[0u8, 1, 2, 2, 2, 3, 3, 3, 4, 127, 128, 129, 200, 255]);
        let seq = if r.chance(3, 4) && total > 0 { (r.below(total as usize + 1)) as u8 } else { *r.pick(&[0u8, 1, 126, 127, 128, 129, 255]) };
        let payload = r.rbytes(0, 4);
        let mut b = vec![(id >> 8) as u8, id as u8, total, seq];
        b.extend_from_slice(&payload);
        // reference: malformed -> nothing; total 1 -> itself; otherwise first total wins, first copy wins
        let expect: Option<Vec<u8>> = if total == 0 || total > 127 || seq >= total {
            None
        } else if total == 1 {
            Some(payload.clone())
        } else {
            let e = model.entry(id).or_insert_with(|| (total, vec![None; total as usize]));
            if e.0 != total || e.1[seq as usize].is_some() {
                None
            } else {
                e.1[seq as usize] = Some(payload.clone());
                if e.1.iter().all(|x| x.is_some()) {
                    let cat: Vec<u8> = e.1.iter().flat_map(|x| x.clone().unwrap()).collect();
                    model.remove(&id);
                    Some(cat)
                } else {
                    None
                }
            }
        };
        let got = match feed(out, &mut f, Bytes::from(b), "adversarial headers") {
            Ok(g) => g,
            Err(_) => return,
        };
        fed.push((id, total, seq, payload.len()));
        if got != expect {
            out.violation(
                if got.is_some() { "reassemble: frame emitted from malformed or mutually inconsistent fragments".to_string() } else { "reassemble: consistent fragments interleaved with malformed ones did not produce their frame".to_string() },
                serde_json::json!({"fed(id,total,seq,len)": fed, "emitted_len": got.map(|g| g.len()), "expected_len": expect.map(|g| g.len())}),
            );
            return;
        }
    }
    out.nontrivial(&fed);
}

fn expiry(out: &mut Out, r: &mut Rng) {
    // (a) never-completed state is discarded after timeout + one timer()
    out.case();
    let t = Duration::from_millis(40);
    let mut f = Fragments::<Raw>::new(t);
    let mut id = r.next() as u16;
    let a = Raw::make(r, 40);
    let ab = a.bytes();
    let fa = match split::<Raw>(out, 14, &mut id, a, &ab) {
        Some(f) if f.len() >= 2 => f,
        _ => return, // the splitting contract is already reported as violated
    };
    for fr in fa.iter().take(fa.len() - 1) {
        if feed(out, &mut f, fr.clone(), "expiry").is_err() {
            return;
        }
    }
    // malformed garbage too
    let _ = feed(out, &mut f, Bytes::from(vec![9, 9, 5, 7, 1]), "expiry");
    let t0 = std::time::Instant::now();
    std::thread::sleep(t * 2);
    f.timer();
    let el = t0.elapsed();
    let pend = f.verif_pending();
    if pend != (0, 0) {
        out.violation("expiry: incomplete reassembly state survives timeout + timer()".into(), serde_json::json!({"pending": [pend.0, pend.1], "elapsed_ms": el.as_millis() as u64, "timeout_ms": 40}));
    }
    // the late last fragment must not complete a frame whose state was discarded
    match feed(out, &mut f, fa[fa.len() - 1].clone(), "expiry") {
        Ok(Some(_)) => out.violation("expiry: frame completed from state that should have been discarded".into(), serde_json::json!({})),
        _ => {}
    }
    out.nontrivial(&("expiry-discard", fa.len()));

    // (b) a completed frame's stale timer entry must not delete a younger reassembly reusing the id
    out.case();
    let t = Duration::from_millis(120);
    let mut f = Fragments::<Raw>::new(t);
    let mut id0 = r.next() as u16;
    let mut id1 = id0;
    let a = Raw::make(r, 30);
    let ab = a.bytes();
    let b = Raw::make(r, 30);
    let bb = b.bytes();
    let (fa, fb) = match (split::<Raw>(out, 14, &mut id0, a, &ab), split::<Raw>(out, 14, &mut id1, b, &bb)) {
        (Some(x), Some(y)) if x.len() >= 2 && y.len() >= 2 => (x, y),
        _ => return,
    };
    let start = std::time::Instant::now();
    let mut got_a = 0;
    for fr in &fa {
        if let Ok(Some(x)) = feed(out, &mut f, fr.clone(), "id-reuse") {
            if x == ab {
                got_a += 1;
            }
        }
    }
    std::thread::sleep(Duration::from_millis(70));
    let b_start = start.elapsed();
    let _ = feed(out, &mut f, fb[0].clone(), "id-reuse");
    std::thread::sleep(Duration::from_millis(70));
    f.timer(); // A's deadline (120ms) has passed, B is ~70ms old
    let b_age = start.elapsed() - b_start;
    let mut got_b = 0;
    for fr in fb.iter().skip(1) {
        if let Ok(Some(x)) = feed(out, &mut f, fr.clone(), "id-reuse") {
            if x == bb {
                got_b += 1;
            }
        }
    }
    // only judge when the measured times are clearly on the intended side
    if got_a == 1 && b_age < Duration::from_millis(100) && start.elapsed() < Duration::from_millis(400) {
        if got_b != 1 {
            out.violation(
                "id reuse: stale timer entry of a completed frame deleted a younger reassembly with the same id".into(),
                serde_json::json!({"timeout_ms": 120, "b_age_ms_at_timer": b_age.as_millis() as u64, "b_emitted": got_b}),
            );
        }
        out.nontrivial(&("id-reuse-young", fa.len()));
    } else {
        out.inconclusive += 1;
    }
}

/// (c) several overlapping frames on a real clock: fragments arrive on a drawn schedule (some frames complete early, some late,
/// some never), timer() runs at drawn instants. A reference with the documented semantics (the deadline of a pending frame is
/// fixed when its first fragment arrives; timer() discards what is past its deadline; a complete set of fragments that were all
/// fed while the state existed yields the frame once) is replayed on the MEASURED times. Not judged when any measured instant
/// is within 12 ms of a deadline.
fn timed_overlap(out: &mut Out, r: &mut Rng) {
    out.case();
    let t_ms = 100u64;
    let t = Duration::from_millis(t_ms);
    let mut f = Fragments::<Raw>::new(t);
    let n = 3 + r.below(3);
    let mut id = r.next() as u16;
    let mut frames: Vec<(Vec<u8>, Vec<Bytes>)> = vec![];
    for _ in 0..n {
        let a = Raw::make(r, 30);
        let ab = a.bytes();
        match split::<Raw>(out, 14, &mut id, a, &ab) {
            Some(fr) if fr.len() >= 3 => frames.push((ab, fr)),
            _ => return,
        }
    }
    // schedule: (time ms, kind) kind = Frag(frame, idx) | Timer
    #[derive(Clone, Copy, Debug)]
    enum Ev {
        Frag(usize, usize),
        Timer,
    }
    let mut evs: Vec<(u64, Ev)> = vec![];
    // frames start 40..60 ms apart, so that their deadlines are 40..60 ms apart too: timer() calls are placed in the windows
    // between consecutive deadlines (15 ms away from both), last fragments anywhere up to just before the frame's own deadline
    let mut starts: Vec<u64> = vec![];
    let mut at = 0u64;
    for _ in 0..n {
        starts.push(at);
        at += 40 + r.below(21) as u64;
    }
    for (i, (_, fr)) in frames.iter().enumerate() {
        let start = starts[i];
        let fate = r.below(5); // 0: completes at once, 1/2: completes late but in time, 3: last fragment after the deadline, 4: never
        let k = fr.len();
        for j in 0..k - 1 {
            evs.push((start + (j as u64) * (1 + r.below(4) as u64), Ev::Frag(i, j)));
        }
        match fate {
            0 => evs.push((start + 10 + r.below(8) as u64, Ev::Frag(i, k - 1))),
            1 | 2 => evs.push((start + 45 + r.below(44) as u64, Ev::Frag(i, k - 1))),
            3 => evs.push((start + t_ms + 20 + r.below(60) as u64, Ev::Frag(i, k - 1))),
            _ => {}
        }
    }
    for i in 0..n {
        if r.chance(2, 3) {
            let lo = starts[i] + t_ms + 15;
            let hi = if i + 1 < n { starts[i + 1] + t_ms - 15 } else { lo + 30 };
            if hi > lo {
                evs.push((lo + r.below((hi - lo) as usize) as u64, Ev::Timer));
            }
        }
    }
    if r.chance(1, 2) {
        evs.push((30 + r.below(60) as u64, Ev::Timer)); // an early one: nothing is due yet
    }
    evs.sort_by_key(|e| e.0);
    // run on the real clock
    let t0 = std::time::Instant::now();
    let mut log: Vec<(u64, Ev, Option<Vec<u8>>)> = vec![]; // measured micros, event, emitted
    for (at, ev) in &evs {
        let target = Duration::from_millis(*at);
        let now = t0.elapsed();
        if target > now {
            std::thread::sleep(target - now);
        }
        let before = t0.elapsed().as_micros() as u64;
        match ev {
            Ev::Frag(i, j) => match feed(out, &mut f, frames[*i].1[*j].clone(), "timed-overlap") {
                Ok(x) => log.push((before, *ev, x)),
                Err(()) => return,
            },
            Ev::Timer => {
                f.timer();
                log.push((before, *ev, None));
            }
        }
    }
    // reference on measured times
    let margin = 12_000u64;
    let mut pending: std::collections::HashMap<usize, (u64, std::collections::HashSet<usize>)> = Default::default(); // frame -> (deadline us, got)
    let mut expect_emit: Vec<(usize, usize)> = vec![]; // (log index, frame)
    let mut unsure = false;
    for (li, (at, ev, _)) in log.iter().enumerate() {
        match ev {
            Ev::Frag(i, j) => {
                let e = pending.entry(*i).or_insert((at + t_ms * 1000, Default::default()));
                e.1.insert(*j);
                if e.1.len() == frames[*i].1.len() {
                    expect_emit.push((li, *i));
                    pending.remove(i);
                }
            }
            Ev::Timer => {
                let mut gone = vec![];
                for (i, (dl, _)) in pending.iter() {
                    if (*dl as i64 - *at as i64).unsigned_abs() < margin {
                        unsure = true;
                    }
                    if *dl < *at {
                        gone.push(*i);
                    }
                }
                for i in gone {
                    pending.remove(&i);
                }
            }
        }
    }
    if unsure {
        out.inconclusive += 1;
        return;
    }
    let mut wrong = vec![];
    for (li, (_, ev, emitted)) in log.iter().enumerate() {
        let want = expect_emit.iter().find(|(l, _)| *l == li).map(|(_, i)| frames[*i].0.clone());
        if *emitted != want {
            wrong.push(serde_json::json!({"event": format!("{:?}", ev), "at_ms": log[li].0 / 1000, "emitted": emitted.is_some(), "expected_a_frame": want.is_some(), "same_bytes": emitted.as_ref().map(|e| Some(e) == want.as_ref())}));
        }
    }
    if !wrong.is_empty() {
        out.violation(
            "overlapping frames with expiry: delivered frames differ from the documented discard-at-deadline semantics".into(),
            serde_json::json!({"timeout_ms": t_ms, "frames": n, "schedule": log.iter().map(|(at, ev, em)| format!("{}ms {:?}{}", at / 1000, ev, if em.is_some() { " -> frame" } else { "" })).collect::<Vec<_>>(), "deviations": wrong}),
        );
    }
    out.nontrivial(&("timed-overlap", n, expect_emit.len(), evs.len()));
}

pub fn run(args: &Args) {
    let mut out = Out::new(
        "C11",
        "c11",
        "real make_fragments -> every permutation (<=6 fragments) / sampled permutations, single and multiple duplicate insertion, 2-4 interleaved frames, id wrap, adversarial header feeds, timer expiry and id reuse; outputs compared with the original frames byte for byte. distinct = distinct (type, frame sizes, mtu, feed order incl. duplicates) histories with >= 2 fragments",
    );
    let mut rng = Rng::new(args.seed);

    // splitting contract + unrepresentable cells over the (len, mtu) grid, no reassembly
    let mtus = [5usize, 6, 8, 16, 100, 576, 1162, 1200, 1452, 65535];
    for &mtu in &mtus {
        let d = mtu - 4;
        for len in [1usize, 2, d.saturating_sub(1).max(1), d, d + 1, 2 * d - 1, 2 * d, 2 * d + 1, 127 * d, 127 * d + 1, 4096, 65535, 65535 + 30] {
            if len > 70000 {
                continue;
            }
            out.case();
            let t = Raw::make(&mut rng, len);
            let o = t.bytes();
            let mut id = 65535u16;
            if let Some(fr) = split::<Raw>(&mut out, mtu, &mut id, t, &o) {
                if fr.len() > 1 {
                    out.nontrivial(&("split", len, mtu));
                }
                if id != 0 {
                    out.violation("split: next_id does not wrap from 65535 to 0".into(), serde_json::json!({"next_id": id}));
                }
            }
        }
    }

    // exhaustive permutations for <= 6 fragments (+ every single-duplicate insertion for <= 4)
    for nfr in 1..=6usize {
        let mtu = *rng.pick(&[8usize, 16, 100]);
        let len = (mtu - 4) * nfr - rng.below(mtu - 4);
        let perms = permutations(nfr);
        let perms: Vec<_> = if args.thorough || nfr <= 5 { perms } else { perms.into_iter().step_by(4).collect() };
        for p in &perms {
            honest::<Raw>(&mut out, &mut rng, &[(len, mtu)], Some(p), 0, "perm");
            if nfr <= 4 {
                honest::<Raw>(&mut out, &mut rng, &[(len, mtu)], Some(p), 1, "perm+dup");
            }
        }
        for p in perms.iter().step_by(if args.thorough { 1 } else { 7 }) {
            honest::<Frame>(&mut out, &mut rng, &[(len.saturating_sub(30).max(1), mtu.max(16))], Some(p), 0, "perm");
        }
    }

    // sampled: sizes x mtu grid, several frames interleaved, duplicates
    let n = args.n(60_000, 3_000_000);
    let seeds: Vec<u64> = (0..n_workers()).map(|_| rng.next()).collect();
    parallel(&mut out, |wi, wn, out| {
        let mut r = Rng::new(seeds[wi]);
        for i in 0..(n / wn + 1) {
            let k = 1 + r.below(4);
            let mut sizes = vec![];
            for _ in 0..k {
                let mtu = *r.pick(&[5usize, 6, 8, 16, 100, 576, 1162, 1200, 1452]);
                let d = mtu - 4;
                let maxlen = (d * 127).min(66000);
                let len = match r.below(8) {
                    0 => 1,
                    1 => d,
                    2 => d + 1,
                    3 => (2 * d + 1).min(maxlen),
                    4 => maxlen,
                    5 => r.range(1, maxlen.min(5000)),
                    6 => if mtu >= 576 { r.range(60000, 65535).min(maxlen) } else { r.range(1, maxlen) },
                    _ => r.range(1, (d * 12).min(maxlen)),
                };
                sizes.push((len, mtu));
            }
            let dups = r.below(4);
            if i % 3 == 0 {
                let sizes: Vec<_> = sizes.iter().map(|(l, m)| ((*l).saturating_sub(40).max(1), (*m).max(48))).collect();
                honest::<Frame>(out, &mut r, &sizes, None, dups, "sampled");
            } else {
                honest::<Raw>(out, &mut r, &sizes, None, dups, "sampled");
            }
            if i % 2 == 0 {
                adversarial(out, &mut r);
            }
        }
    });

    // timing-dependent scenarios
    for _ in 0..args.n(3, 20) {
        expiry(&mut out, &mut rng);
        for _ in 0..8 {
            timed_overlap(&mut out, &mut rng);
        }
    }

    // id wrap across 65535 -> 0 with reassembly: a full cycle in thorough, a window in quick
    {
        let mut f = Fragments::<Raw>::new(Duration::from_secs(60));
        let mut id: u16 = 65000;
        let cycle = if args.thorough { 70_000 } else { 1_500 };
        let mut okc = 0u64;
        for _ in 0..cycle {
            out.case();
            let t = Raw::make(&mut rng, 9);
            let o = t.bytes();
            let fr = match split::<Raw>(&mut out, 8, &mut id, t, &o) {
                Some(f) => f,
                None => break,
            };
            let mut got = None;
            for x in fr.iter().rev() {
                if let Ok(Some(g)) = feed(&mut out, &mut f, x.clone(), "wrap") {
                    got = Some(g);
                }
            }
            if got.as_ref() != Some(&o) {
                out.violation("id wrap: frame lost or corrupted when ids wrap / are reused after completion".into(), serde_json::json!({"next_id": id}));
                break;
            }
            okc += 1;
        }
        out.nontrivial(&("id-cycle", cycle));
        out.set("id_cycle_frames", serde_json::json!(okc));
    }
    out.finish();
}

/// C05 part: exhaustive (total, seq) x datagram length grid on fresh and on primed state: no panic.
pub fn header_grid(out: &mut Out) {
    let mut calls = 0u64;
    let mut one = |out: &mut Out, primed: bool, b: Vec<u8>, class: String| {
        let mut f = Fragments::<Raw>::new(Duration::from_secs(60));
        if primed {
            let _ = guard(|| f.reassemble(Bytes::from(vec![0, 7, 3, 1, 0xaa])));
        }
        out.case();
        calls += 1;
        let (t, s, l) = (b.get(2).cloned(), b.get(3).cloned(), b.len());
        if let Err(p) = guard(|| f.reassemble(Bytes::from(b))) {
            out.violation(
                format!("fragment header grid: {} [{}{}]", p.sig(), class, if primed { ", existing entry" } else { "" }),
                serde_json::json!({"total": t, "seq": s, "len": l, "primed": primed, "panic": p.msg}),
            );
        }
    };
    for primed in [false, true] {
        for len in 0..4usize {
            one(out, primed, vec![0u8; len], "datagram shorter than the 4-byte header".into());
        }
        for total in 0..=255u8 {
            for seq in 0..=255u8 {
                for len in [4usize, 5, 8] {
                    let mut b = vec![0u8, 7, total, seq, 1, 2, 3, 4];
                    b.truncate(len);
                    let class = if total == 0 { "total=0" } else if seq >= total { "seq>=total" } else if total > 127 { "total>127" } else { "well-formed header" };
                    one(out, primed, b, class.into());
                }
            }
        }
    }
    out.nontrivial(&"fragment-header-grid-fresh");
    out.nontrivial(&"fragment-header-grid-primed");
    out.set("fragment_header_grid_calls", serde_json::json!(calls));
}
