// Recording connectors / state builders shared by the routing monitors (C02, C15, C17).
use super::util::*;
use crate::connectors::Connector;
use crate::context::{ContextRef, Feature, TargetAddress};
use crate::GlobalState;
use async_trait::async_trait;
use easy_error::{err_msg, Error};
use std::collections::HashMap;
use std::net::SocketAddr;
use std::sync::{Arc, Mutex};

pub struct RecConnector {
    pub name: String,
    pub features: Vec<Feature>,
    pub calls: Mutex<Vec<u64>>, // context ids, in call order
}

impl RecConnector {
    pub fn new(name: &str, features: &[Feature]) -> Arc<Self> {
        Arc::new(RecConnector { name: name.into(), features: features.to_vec(), calls: Mutex::new(vec![]) })
    }
    pub fn take(&self) -> Vec<u64> {
        std::mem::take(&mut *self.calls.lock().unwrap())
    }
    pub fn count(&self) -> usize {
        self.calls.lock().unwrap().len()
    }
}

#[async_trait]
impl Connector for RecConnector {
    async fn connect(self: Arc<Self>, _state: Arc<GlobalState>, ctx: ContextRef) -> Result<(), Error> {
        let id = ctx.read().await.props().id;
        self.calls.lock().unwrap().push(id);
        // the upstream is "unreachable": the request ends here, after the routing decision was observed
        Err(err_msg("recording connector: no upstream"))
    }
    fn name(&self) -> &str {
        &self.name
    }
    fn features(&self) -> &[Feature] {
        &self.features
    }
}

pub fn yaml(v: serde_json::Value) -> serde_yaml::Value {
    serde_yaml::from_str(&v.to_string()).unwrap()
}

/// a GlobalState with the given recording connectors plus real connectors built from YAML (e.g. load balancers)
pub async fn make_state(recs: &[Arc<RecConnector>], real: &[serde_json::Value]) -> Result<Arc<GlobalState>, Error> {
    let mut st = GlobalState::default();
    let mut map: HashMap<String, Arc<dyn Connector>> = HashMap::new();
    for r in recs {
        map.insert(r.name.clone(), r.clone());
    }
    for v in real {
        let mut c = crate::connectors::from_value(&yaml(v.clone()))?;
        c.init().await?;
        map.insert(c.name().to_owned(), c.into());
    }
    st.connectors = map;
    let st = Arc::new(st);
    for c in st.connectors.values() {
        c.verify(st.clone()).await?;
    }
    Ok(st)
}

pub fn rules_from(list: &[serde_json::Value]) -> Result<Vec<Arc<crate::rules::Rule>>, Error> {
    let vals: Vec<serde_yaml::Value> = list.iter().map(|v| yaml(v.clone())).collect();
    crate::rules::from_config(&vals)
}

#[derive(Clone, Debug)]
pub struct Req {
    pub listener: String,
    pub source: SocketAddr,
    pub target: TargetAddress,
    pub feature: Feature,
}

pub async fn make_ctx(state: &Arc<GlobalState>, r: &Req) -> ContextRef {
    let ctx = state.contexts.create_context(r.listener.clone(), r.source).await;
    ctx.write().await.set_target(r.target.clone()).set_feature(r.feature);
    ctx
}

pub fn feature_name(f: Feature) -> &'static str {
    match f {
        Feature::TcpForward => "TcpForward",
        Feature::TcpBind => "TcpBind",
        Feature::UdpForward => "UdpForward",
        Feature::UdpBind => "UdpBind",
    }
}

pub fn rand_req(r: &mut Rng) -> Req {
    let listener = (*r.pick(&["http", "socks", "rev", "quic", "l1"])).to_string();
    let source: SocketAddr = match r.below(6) {
        0 => "127.0.0.1:40000".parse().unwrap(),
        1 => format!("10.{}.{}.{}:{}", r.below(256), r.below(256), r.below(256), 1 + r.below(65535)).parse().unwrap(),
        2 => format!("192.168.{}.{}:{}", r.below(256), r.below(256), 1 + r.below(65535)).parse().unwrap(),
        3 => "[::1]:5000".parse().unwrap(),
        4 => format!("[2001:db8:{:x}::{:x}]:{}", r.below(65536), r.below(65536), 1 + r.below(65535)).parse().unwrap(),
        _ => format!("{}.{}.{}.{}:{}", 1 + r.below(223), r.below(256), r.below(256), r.below(256), r.below(65536)).parse().unwrap(),
    };
    let port = *r.pick(&[0u16, 22, 53, 80, 443, 8080, 65535]);
    let target = match r.below(7) {
        0 => TargetAddress::DomainPort("example.com".into(), port),
        1 => TargetAddress::DomainPort((*r.pick(&["a.example.com", "deny-me.com", "localhost", "10", "x", "google.com", "10.0.0.1.nip.io"])).to_string(), port),
        2 => TargetAddress::SocketAddr(format!("10.{}.{}.{}:{}", r.below(256), r.below(256), r.below(256), port).parse().unwrap()),
        3 => TargetAddress::SocketAddr(format!("127.0.0.{}:{}", r.below(256), port).parse().unwrap()),
        4 => TargetAddress::SocketAddr(format!("[2001:db8::{:x}]:{}", r.below(65536), port).parse().unwrap()),
        5 => TargetAddress::SocketAddr(format!("[::ffff:10.0.0.{}]:{}", r.below(256), port).parse().unwrap()),
        _ => TargetAddress::SocketAddr(format!("{}.{}.{}.{}:{}", 1 + r.below(223), r.below(256), r.below(256), r.below(256), port).parse().unwrap()),
    };
    let feature = *r.pick(&[Feature::TcpForward, Feature::TcpForward, Feature::TcpForward, Feature::UdpForward, Feature::UdpBind, Feature::TcpBind]);
    Req { listener, source, target, feature }
}
