// Shared building blocks of the in-process monitors.
// This file is compiled INTO the redproxy-rs binary through hook H1 (see DESIGN.md 2.3/2.5).
#![allow(dead_code)]

use std::cell::RefCell;
use std::future::Future;
use std::collections::{BTreeMap, HashSet};
use std::io::Write;
use std::panic::{catch_unwind, AssertUnwindSafe};
use std::pin::Pin;
use std::sync::{Arc, Mutex};
use std::task::{Context as TaskCx, Poll};
use tokio::io::{AsyncRead, AsyncWrite, ReadBuf};

// ---------------------------------------------------------------- rng
#[derive(Clone)]
pub struct Rng(u64);
impl Rng {
    pub fn new(seed: u64) -> Self {
        let mut r = Rng(seed ^ 0x9E37_79B9_7F4A_7C15);
        for _ in 0..4 {
            r.next();
        }
        r
    }
    pub fn next(&mut self) -> u64 {
        // splitmix64
        self.0 = self.0.wrapping_add(0x9E37_79B9_7F4A_7C15);
        let mut z = self.0;
        z = (z ^ (z >> 30)).wrapping_mul(0xBF58_476D_1CE4_E5B9);
        z = (z ^ (z >> 27)).wrapping_mul(0x94D0_49BB_1331_11EB);
        z ^ (z >> 31)
    }
    pub fn below(&mut self, n: usize) -> usize {
        if n == 0 {
            0
        } else {
            (self.next() % n as u64) as usize
        }
    }
    pub fn range(&mut self, lo: usize, hi: usize) -> usize {
        lo + self.below(hi - lo + 1)
    }
    pub fn chance(&mut self, num: usize, den: usize) -> bool {
        self.below(den) < num
    }
    pub fn pick<'a, T>(&mut self, v: &'a [T]) -> &'a T {
        &v[self.below(v.len())]
    }
    pub fn bytes(&mut self, n: usize) -> Vec<u8> {
        (0..n).map(|_| self.next() as u8).collect()
    }
    /// random bytes of a random length in lo..=hi
    pub fn rbytes(&mut self, lo: usize, hi: usize) -> Vec<u8> {
        let n = self.range(lo, hi);
        self.bytes(n)
    }
    pub fn shuffle<T>(&mut self, v: &mut [T]) {
        for i in (1..v.len()).rev() {
            let j = self.below(i + 1);
            v.swap(i, j);
        }
    }
    pub fn fork(&mut self) -> Rng {
        Rng::new(self.next())
    }
}

pub fn hex(b: &[u8]) -> String {
    let mut s = String::with_capacity(b.len() * 2);
    for x in b.iter().take(4096) {
        s.push_str(&format!("{:02x}", x));
    }
    if b.len() > 4096 {
        s.push_str(&format!("..(+{} bytes)", b.len() - 4096));
    }
    s
}

pub fn unhex(s: &str) -> Vec<u8> {
    let s = s.as_bytes();
    (0..s.len() / 2)
        .map(|i| u8::from_str_radix(std::str::from_utf8(&s[2 * i..2 * i + 2]).unwrap(), 16).unwrap())
        .collect()
}

// ---------------------------------------------------------------- args
pub struct Args {
    pub seed: u64,
    pub thorough: bool,
    pub scale: f64,
    pub replay: Option<String>,
    pub extra: BTreeMap<String, String>,
}
impl Args {
    pub fn parse() -> Self {
        let mut a = Args {
            seed: 1,
            thorough: false,
            scale: 1.0,
            replay: None,
            extra: BTreeMap::new(),
        };
        let v: Vec<String> = std::env::args().skip(1).collect();
        let mut i = 0;
        while i < v.len() {
            let k = v[i].trim_start_matches("--").to_string();
            let val = v.get(i + 1).cloned().unwrap_or_default();
            match k.as_str() {
                "seed" => a.seed = val.parse().unwrap_or(1),
                "tier" => a.thorough = val == "thorough",
                "scale" => a.scale = val.parse().unwrap_or(1.0),
                "replay" => a.replay = Some(val),
                _ => {
                    a.extra.insert(k, val);
                }
            }
            i += 2;
        }
        a
    }
    pub fn n(&self, quick: usize, thorough: usize) -> usize {
        let base = if self.thorough { thorough } else { quick };
        ((base as f64) * self.scale).max(1.0) as usize
    }
    pub fn get(&self, k: &str) -> Option<&str> {
        self.extra.get(k).map(|s| s.as_str())
    }
}

// ---------------------------------------------------------------- panic capture
thread_local! {
    static LAST_PANIC: RefCell<Option<(String, String)>> = RefCell::new(None);
    static GUARD_DEPTH: RefCell<usize> = RefCell::new(0);
}

pub fn install_panic_hook() {
    std::panic::set_hook(Box::new(|info| {
        let loc = info
            .location()
            .map(|l| l.file().to_string())
            .unwrap_or_else(|| "?".into());
        let msg = if let Some(s) = info.payload().downcast_ref::<&str>() {
            s.to_string()
        } else if let Some(s) = info.payload().downcast_ref::<String>() {
            s.clone()
        } else {
            "<non-string panic>".to_string()
        };
        if GUARD_DEPTH.with(|d| *d.borrow()) == 0 {
            // a panic outside a monitored call is a harness bug: make it loud
            eprintln!("HARNESS PANIC at {:?}: {}", info.location(), msg);
        }
        LAST_PANIC.with(|p| *p.borrow_mut() = Some((loc, msg)));
    }));
}

/// file path shortened to be stable across machines (strip registry prefixes)
pub fn short_loc(loc: &str) -> String {
    if let Some(i) = loc.rfind("/src/") {
        let head = &loc[..i];
        let crate_name = head.rsplit('/').next().unwrap_or("");
        // registry crates look like name-1.2.3: strip version
        let base = crate_name
            .rsplit_once('-')
            .filter(|(_, v)| v.chars().next().map(|c| c.is_ascii_digit()).unwrap_or(false))
            .map(|(n, _)| n)
            .unwrap_or(crate_name);
        if loc.starts_with("src/") || loc.starts_with("milu/") {
            loc.to_string()
        } else {
            format!("{}{}", base, &loc[i..])
        }
    } else {
        loc.to_string()
    }
}

/// message stem: digits and quoted payloads removed so different inputs share one signature
pub fn stem(msg: &str) -> String {
    let mut out = String::new();
    let mut last_hash = false;
    for c in msg.chars().take(160) {
        if c.is_ascii_digit() {
            if !last_hash {
                out.push('#');
                last_hash = true;
            }
        } else {
            out.push(c);
            last_hash = false;
        }
    }
    out
}

#[derive(Debug)]
pub struct Panicked {
    pub loc: String,
    pub msg: String,
}
impl Panicked {
    pub fn sig(&self) -> String {
        format!("panic {} \"{}\"", short_loc(&self.loc), stem(&self.msg))
    }
}

pub fn take_panic() -> Panicked {
    let (loc, msg) = LAST_PANIC
        .with(|p| p.borrow_mut().take())
        .unwrap_or(("?".into(), "?".into()));
    Panicked { loc, msg }
}

pub fn guard<T>(f: impl FnOnce() -> T) -> Result<T, Panicked> {
    GUARD_DEPTH.with(|d| *d.borrow_mut() += 1);
    let r = catch_unwind(AssertUnwindSafe(f));
    GUARD_DEPTH.with(|d| *d.borrow_mut() -= 1);
    match r {
        Ok(v) => Ok(v),
        Err(_) => Err(take_panic()),
    }
}

/// run a future on the current thread to completion with a poll budget; panics are caught.
pub enum Ran<T> {
    Done(T),
    Panicked(Panicked),
    Hung,
}
pub fn run_budget<T>(fut: impl std::future::Future<Output = T>, max_polls: usize) -> Ran<T> {
    use std::task::{RawWaker, RawWakerVTable, Waker};
    fn noop_raw() -> RawWaker {
        fn clone(_: *const ()) -> RawWaker {
            noop_raw()
        }
        fn noop(_: *const ()) {}
        static VT: RawWakerVTable = RawWakerVTable::new(clone, noop, noop, noop);
        RawWaker::new(std::ptr::null(), &VT)
    }
    let waker = unsafe { Waker::from_raw(noop_raw()) };
    let mut cx = TaskCx::from_waker(&waker);
    // tokio's cooperative budget would make its primitives return Pending forever under manual polling
    let mut fut = Box::pin(tokio::task::unconstrained(fut));
    for _ in 0..max_polls {
        GUARD_DEPTH.with(|d| *d.borrow_mut() += 1);
        let r = catch_unwind(AssertUnwindSafe(|| fut.as_mut().poll(&mut cx)));
        GUARD_DEPTH.with(|d| *d.borrow_mut() -= 1);
        match r {
            Err(_) => return Ran::Panicked(take_panic()),
            Ok(Poll::Ready(v)) => return Ran::Done(v),
            Ok(Poll::Pending) => {}
        }
    }
    Ran::Hung
}

// ---------------------------------------------------------------- output
pub struct Out {
    pub monitor: String,
    pub property: String,
    pub evaluations: u64,
    distinct: HashSet<u64>,
    pub rule: String,
    samples: Vec<serde_json::Value>,
    viol: BTreeMap<String, (u64, serde_json::Value)>,
    pub extra: BTreeMap<String, serde_json::Value>,
    pub inconclusive: u64,
    max_samples: usize,
}

pub fn h64<T: std::hash::Hash>(t: &T) -> u64 {
    use std::hash::Hasher;
    let mut h = std::collections::hash_map::DefaultHasher::new();
    t.hash(&mut h);
    h.finish()
}

impl Out {
    pub fn new(property: &str, monitor: &str, rule: &str) -> Self {
        Out {
            monitor: monitor.into(),
            property: property.into(),
            evaluations: 0,
            distinct: HashSet::new(),
            rule: rule.into(),
            samples: vec![],
            viol: BTreeMap::new(),
            extra: BTreeMap::new(),
            inconclusive: 0,
            max_samples: 6,
        }
    }
    pub fn case(&mut self) {
        self.evaluations += 1;
    }
    /// count a non-trivial case by its distinguishing key
    pub fn nontrivial<T: std::hash::Hash>(&mut self, key: &T) {
        if self.distinct.len() < 5_000_000 {
            self.distinct.insert(h64(key));
        }
    }
    pub fn sample(&mut self, v: serde_json::Value) {
        if self.samples.len() < self.max_samples {
            self.samples.push(v);
        }
    }
    pub fn want_sample(&self) -> bool {
        self.samples.len() < self.max_samples
    }
    pub fn violation(&mut self, sig: String, witness: serde_json::Value) {
        if !self.viol.contains_key(&sig) {
            // report at once: the observation must survive even if the process dies later
            let line = serde_json::json!({"t":"viol","property":self.property,"monitor":self.monitor,"sig":sig,"count":1,"witness":witness});
            let stdout = std::io::stdout();
            let mut o = stdout.lock();
            writeln!(o, "{}", line).ok();
            o.flush().ok();
        }
        let e = self.viol.entry(sig).or_insert((0, witness));
        e.0 += 1;
    }
    pub fn count(&mut self, key: &str, n: u64) {
        let e = self
            .extra
            .entry(key.to_string())
            .or_insert(serde_json::json!(0));
        *e = serde_json::json!(e.as_u64().unwrap_or(0) + n);
    }
    pub fn set(&mut self, key: &str, v: serde_json::Value) {
        self.extra.insert(key.to_string(), v);
    }
    /// fold another monitor state (from a worker thread) into this one
    pub fn merge(&mut self, o: Out) {
        self.evaluations += o.evaluations;
        self.distinct.extend(o.distinct);
        self.inconclusive += o.inconclusive;
        for s in o.samples {
            self.sample(s);
        }
        for (k, (n, w)) in o.viol {
            let e = self.viol.entry(k).or_insert((0, w));
            e.0 += n;
        }
        for (k, v) in o.extra {
            match (self.extra.get(&k).and_then(|x| x.as_u64()), v.as_u64()) {
                (Some(a), Some(b)) => {
                    self.extra.insert(k, serde_json::json!(a + b));
                }
                _ => {
                    self.extra.entry(k).or_insert(v);
                }
            }
        }
    }
    pub fn child(&self) -> Out {
        Out::new(&self.property, &self.monitor, "")
    }
    pub fn nviol(&self) -> usize {
        self.viol.len()
    }
    pub fn finish(self) {
        let stdout = std::io::stdout();
        let mut o = stdout.lock();
        let counts: BTreeMap<&String, u64> = self.viol.iter().map(|(k, v)| (k, v.0)).collect();
        writeln!(o, "{}", serde_json::json!({"t":"violcounts","counts":counts})).ok();
        let line = serde_json::json!({
            "t":"summary","property":self.property,"monitor":self.monitor,
            "evaluations":self.evaluations,"distinct":self.distinct.len(),
            "rule":self.rule,"samples":self.samples,"extra":self.extra,
            "inconclusive":self.inconclusive,
        });
        writeln!(o, "{}", line).ok();
        o.flush().ok();
    }
}

// ---------------------------------------------------------------- scripted io
/// An AsyncRead+AsyncWrite whose reads deliver a chosen sequence of segments (with optional
/// Pending between them) and then EOF, and whose writes are recorded (optionally in partial
/// lengths). Satisfies the crate's IOStream, so it can be boxed into a real Context.
#[derive(Clone)]
pub struct ScriptedIo {
    inner: Arc<Mutex<SioInner>>,
}
struct SioInner {
    segs: std::collections::VecDeque<Vec<u8>>,
    pending_between: bool,
    pending_next: bool,
    written: Vec<u8>,
    max_write: usize,
    shutdown: bool,
    flushes: usize,
    read_polls: usize,
    eof_is_pending: bool, // instead of EOF, stay pending forever (a stalled peer)
    write_err_after: Option<usize>,
}

impl ScriptedIo {
    pub fn new(segs: Vec<Vec<u8>>, pending_between: bool) -> Self {
        ScriptedIo {
            inner: Arc::new(Mutex::new(SioInner {
                segs: segs.into_iter().filter(|s| !s.is_empty()).collect(),
                pending_between,
                pending_next: false,
                written: vec![],
                max_write: usize::MAX,
                shutdown: false,
                flushes: 0,
                read_polls: 0,
                eof_is_pending: false,
                write_err_after: None,
            })),
        }
    }
    pub fn whole(data: &[u8]) -> Self {
        Self::new(vec![data.to_vec()], false)
    }
    /// split data at the given cut offsets (sorted, within 1..len)
    pub fn cut(data: &[u8], cuts: &[usize], pending_between: bool) -> Self {
        let mut segs = vec![];
        let mut last = 0;
        for &c in cuts {
            if c > last && c < data.len() {
                segs.push(data[last..c].to_vec());
                last = c;
            }
        }
        segs.push(data[last..].to_vec());
        Self::new(segs, pending_between)
    }
    pub fn set_max_write(&self, n: usize) {
        self.inner.lock().unwrap().max_write = n.max(1);
    }
    pub fn set_stall_at_end(&self) {
        self.inner.lock().unwrap().eof_is_pending = true;
    }
    pub fn push(&self, seg: Vec<u8>) {
        self.inner.lock().unwrap().segs.push_back(seg);
    }
    pub fn written(&self) -> Vec<u8> {
        self.inner.lock().unwrap().written.clone()
    }
    pub fn is_shutdown(&self) -> bool {
        self.inner.lock().unwrap().shutdown
    }
    pub fn unread(&self) -> Vec<u8> {
        let g = self.inner.lock().unwrap();
        g.segs.iter().flat_map(|s| s.iter().cloned()).collect()
    }
    pub fn read_polls(&self) -> usize {
        self.inner.lock().unwrap().read_polls
    }
}

impl AsyncRead for ScriptedIo {
    fn poll_read(
        self: Pin<&mut Self>,
        cx: &mut TaskCx<'_>,
        buf: &mut ReadBuf<'_>,
    ) -> Poll<std::io::Result<()>> {
        let mut g = self.inner.lock().unwrap();
        g.read_polls += 1;
        if g.pending_next {
            g.pending_next = false;
            cx.waker().wake_by_ref();
            return Poll::Pending;
        }
        if g.segs.is_empty() {
            if g.eof_is_pending {
                return Poll::Pending;
            }
            return Poll::Ready(Ok(()));
        }
        let n = buf.remaining().min(g.segs[0].len());
        if n == 0 {
            return Poll::Ready(Ok(()));
        }
        let seg = g.segs.front_mut().unwrap();
        buf.put_slice(&seg[..n]);
        if n == seg.len() {
            g.segs.pop_front();
            if g.pending_between {
                g.pending_next = true;
            }
        } else {
            seg.drain(..n);
        }
        Poll::Ready(Ok(()))
    }
}

impl AsyncWrite for ScriptedIo {
    fn poll_write(
        self: Pin<&mut Self>,
        _cx: &mut TaskCx<'_>,
        buf: &[u8],
    ) -> Poll<std::io::Result<usize>> {
        let mut g = self.inner.lock().unwrap();
        if let Some(lim) = g.write_err_after {
            if g.written.len() >= lim {
                return Poll::Ready(Err(std::io::Error::new(
                    std::io::ErrorKind::BrokenPipe,
                    "scripted write error",
                )));
            }
        }
        let n = buf.len().min(g.max_write);
        g.written.extend_from_slice(&buf[..n]);
        Poll::Ready(Ok(n))
    }
    fn poll_flush(self: Pin<&mut Self>, _cx: &mut TaskCx<'_>) -> Poll<std::io::Result<()>> {
        self.inner.lock().unwrap().flushes += 1;
        Poll::Ready(Ok(()))
    }
    fn poll_shutdown(self: Pin<&mut Self>, _cx: &mut TaskCx<'_>) -> Poll<std::io::Result<()>> {
        self.inner.lock().unwrap().shutdown = true;
        Poll::Ready(Ok(()))
    }
}

/// all cut sets of a message of length n as bitmasks over n-1 positions
pub fn cuts_from_mask(n: usize, mask: u64) -> Vec<usize> {
    (1..n).filter(|i| mask & (1 << (i - 1)) != 0).collect()
}

pub fn n_workers() -> usize {
    std::thread::available_parallelism().map(|n| n.get()).unwrap_or(4).min(16)
}

/// run `f(worker_index, n_workers, child_out)` on worker threads and merge the results
pub fn parallel(out: &mut Out, f: impl Fn(usize, usize, &mut Out) + Sync) {
    let n = n_workers();
    let mut outs: Vec<Out> = (0..n).map(|_| out.child()).collect();
    // the workers poll futures by hand; code under test may still create tokio timers or sockets, which need a runtime CONTEXT
    // (not an executor): without it a decoder that merely arms a timeout would panic here and nowhere else
    let handle = tokio::runtime::Handle::try_current().ok();
    std::thread::scope(|s| {
        for (i, o) in outs.iter_mut().enumerate() {
            let f = &f;
            let handle = handle.clone();
            s.spawn(move || {
                let _ctx = handle.as_ref().map(|h| h.enter());
                f(i, n, o)
            });
        }
    });
    for o in outs {
        out.merge(o);
    }
}
