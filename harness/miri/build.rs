use std::{env, fs, path::Path};
fn main() {
    let repo = env::var("VERIF_REPO").unwrap_or_else(|_| "/repo".to_string());
    let out = env::var("OUT_DIR").unwrap();
    for f in ["fragment.rs", "frames.rs"] {
        let src = Path::new(&repo).join("src/common").join(f);
        println!("cargo:rerun-if-changed={}", src.display());
        fs::copy(&src, Path::new(&out).join(f)).expect("copy source from repo");
    }
    println!("cargo:rerun-if-env-changed=VERIF_REPO");
}
