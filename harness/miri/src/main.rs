// Miri lane: the real fragment.rs / frames.rs (copied verbatim from the repository by build.rs) driven by the same
// kind of generators as the in-process monitors, at a size Miri can interpret. A TargetAddress shim replaces
// src/context.rs (which would drag in the whole crate); the shim is trusted.
#![allow(dead_code)]
use bytes::{Buf, Bytes};
use std::future::Future;
use std::pin::Pin;
use std::task::{Context as TaskCx, Poll, RawWaker, RawWakerVTable, Waker};
use std::time::Duration;
use tokio::io::{AsyncRead, AsyncWrite, ReadBuf};

mod context {
    use std::net::{Ipv4Addr, Ipv6Addr, SocketAddr, SocketAddrV4, SocketAddrV6};
    #[derive(Debug, Hash, Clone, Eq, PartialEq)]
    pub enum TargetAddress {
        DomainPort(String, u16),
        SocketAddr(SocketAddr),
        Unknown,
    }
    impl From<SocketAddr> for TargetAddress {
        fn from(a: SocketAddr) -> Self {
            Self::SocketAddr(a)
        }
    }
    impl From<(u32, u16)> for TargetAddress {
        fn from((ip, port): (u32, u16)) -> Self {
            Self::SocketAddr(SocketAddr::V4(SocketAddrV4::new(Ipv4Addr::from(ip), port)))
        }
    }
    impl From<([u8; 16], u16)> for TargetAddress {
        fn from((ip, port): ([u8; 16], u16)) -> Self {
            Self::SocketAddr(SocketAddr::V6(SocketAddrV6::new(Ipv6Addr::from(ip), port, 0, 0)))
        }
    }
    impl From<(String, u16)> for TargetAddress {
        fn from((h, p): (String, u16)) -> Self {
            Self::DomainPort(h, p)
        }
    }
}

mod common {
    pub mod fragment {
        include!(concat!(env!("OUT_DIR"), "/fragment.rs"));
    }
    pub mod frames {
        include!(concat!(env!("OUT_DIR"), "/frames.rs"));
    }
}

use common::fragment::{Fragmentable, Fragments};
use common::frames::{frames_from_stream, Frame};
use context::TargetAddress;

struct Rng(u64);
impl Rng {
    fn next(&mut self) -> u64 {
        self.0 = self.0.wrapping_add(0x9E37_79B9_7F4A_7C15);
        let mut z = self.0;
        z = (z ^ (z >> 30)).wrapping_mul(0xBF58_476D_1CE4_E5B9);
        z = (z ^ (z >> 27)).wrapping_mul(0x94D0_49BB_1331_11EB);
        z ^ (z >> 31)
    }
    fn below(&mut self, n: usize) -> usize {
        (self.next() % n.max(1) as u64) as usize
    }
    fn bytes(&mut self, n: usize) -> Vec<u8> {
        (0..n).map(|_| self.next() as u8).collect()
    }
}

#[derive(Debug, PartialEq, Eq, Clone)]
struct Raw(Bytes);
impl Fragmentable for Raw {
    type Buffer = Bytes;
    fn as_buffer(&self) -> Bytes {
        self.0.clone()
    }
    fn from_buffer(b: Bytes) -> Option<Self> {
        Some(Raw(b))
    }
}

fn noop_waker() -> Waker {
    fn raw() -> RawWaker {
        fn clone(_: *const ()) -> RawWaker {
            raw()
        }
        fn noop(_: *const ()) {}
        static VT: RawWakerVTable = RawWakerVTable::new(clone, noop, noop, noop);
        RawWaker::new(std::ptr::null(), &VT)
    }
    unsafe { Waker::from_raw(raw()) }
}

fn block_on<T>(fut: impl Future<Output = T>) -> T {
    let w = noop_waker();
    let mut cx = TaskCx::from_waker(&w);
    let mut fut = Box::pin(fut);
    for _ in 0..1_000_000 {
        if let Poll::Ready(v) = fut.as_mut().poll(&mut cx) {
            return v;
        }
    }
    panic!("future did not complete");
}

struct Scripted {
    segs: std::collections::VecDeque<Vec<u8>>,
    pend: bool,
    written: Vec<u8>,
}
impl AsyncRead for Scripted {
    fn poll_read(mut self: Pin<&mut Self>, cx: &mut TaskCx<'_>, buf: &mut ReadBuf<'_>) -> Poll<std::io::Result<()>> {
        if self.pend {
            self.pend = false;
            cx.waker().wake_by_ref();
            return Poll::Pending;
        }
        if let Some(mut s) = self.segs.pop_front() {
            let n = s.len().min(buf.remaining());
            buf.put_slice(&s[..n]);
            if n < s.len() {
                s.drain(..n);
                self.segs.push_front(s);
            } else {
                self.pend = true;
            }
        }
        Poll::Ready(Ok(()))
    }
}
impl AsyncWrite for Scripted {
    fn poll_write(mut self: Pin<&mut Self>, _: &mut TaskCx<'_>, b: &[u8]) -> Poll<std::io::Result<usize>> {
        self.written.extend_from_slice(b);
        Poll::Ready(Ok(b.len()))
    }
    fn poll_flush(self: Pin<&mut Self>, _: &mut TaskCx<'_>) -> Poll<std::io::Result<()>> {
        Poll::Ready(Ok(()))
    }
    fn poll_shutdown(self: Pin<&mut Self>, _: &mut TaskCx<'_>) -> Poll<std::io::Result<()>> {
        Poll::Ready(Ok(()))
    }
}

fn flat<B: Buf>(mut b: B) -> Vec<u8> {
    let mut v = vec![];
    while b.has_remaining() {
        let c = b.chunk().to_vec();
        b.advance(c.len());
        v.extend(c);
    }
    v
}

fn mk_frame(r: &mut Rng, n: usize) -> Frame {
    let mut f = Frame::from_body(Bytes::from(r.bytes(n)));
    f.session_id = r.next() as u32;
    f.addr = match r.below(4) {
        0 => None,
        1 => Some(TargetAddress::from((0x01020304u32, 53))),
        2 => Some(TargetAddress::from(([1u8; 16], 443))),
        _ => Some(TargetAddress::DomainPort("example.com".into(), 80)),
    };
    f
}

fn main() {
    let args: Vec<String> = std::env::args().collect();
    let seed: u64 = args.iter().position(|a| a == "--seed").and_then(|i| args.get(i + 1)).and_then(|s| s.parse().ok()).unwrap_or(1);
    let n: usize = args.iter().position(|a| a == "--n").and_then(|i| args.get(i + 1)).and_then(|s| s.parse().ok()).unwrap_or(40);
    let mut r = Rng(seed);
    let (mut cases, mut distinct, mut viol) = (0u64, 0u64, Vec::<String>::new());
    // ---- fragmentation round trips (advance_mut over uninitialised capacity)
    for i in 0..n {
        let mtu = [5usize, 6, 8, 16, 100, 576, 1162][r.below(7)];
        let len = 1 + r.below(((mtu - 4) * 6).min(3000));
        let mut id = if i % 5 == 0 { 65535 } else { r.next() as u16 };
        let raw = Raw(Bytes::from(r.bytes(len)));
        let mut frags: Vec<Bytes> = Fragments::<Raw>::make_fragments(mtu, &mut id, raw.clone()).collect();
        // shuffle + one duplicate
        for k in (1..frags.len()).rev() {
            let j = r.below(k + 1);
            frags.swap(k, j);
        }
        if frags.len() > 1 {
            let d = frags[r.below(frags.len())].clone();
            let at = r.below(frags.len());
            frags.insert(at, d);
        }
        let mut f = Fragments::<Raw>::new(Duration::from_secs(60));
        let mut out = vec![];
        for fr in frags.iter() {
            if let Some(x) = f.reassemble(fr.clone()) {
                out.push(x);
            }
        }
        cases += 1;
        if frags.len() > 1 {
            distinct += 1;
        }
        if out.len() != 1 || out[0] != raw {
            viol.push(format!("miri/fragment round trip len={} mtu={} emitted={}", len, mtu, out.len()));
        }
        // the real Frame through the same path
        let fr = mk_frame(&mut r, len.min(500));
        let want = flat(fr.as_buffer());
        let mut id2 = r.next() as u16;
        let mut f2 = Fragments::<Frame>::new(Duration::from_secs(60));
        let mut got = None;
        for x in Fragments::<Frame>::make_fragments(mtu.max(16), &mut id2, fr) {
            if let Some(g) = f2.reassemble(x) {
                got = Some(flat(g.as_buffer()));
            }
        }
        cases += 1;
        if got.as_ref() != Some(&want) {
            viol.push(format!("miri/frame fragment round trip len={} mtu={}", len, mtu));
        }
        // hostile headers must not touch memory out of bounds
        for _ in 0..6 {
            let mut d = vec![0u8, r.below(2) as u8, [0u8, 1, 2, 3, 127, 128, 255][r.below(7)], [0u8, 1, 2, 3, 127, 128, 255][r.below(7)]];
            let nb = r.below(6);
            d.extend(r.bytes(nb));
            d.truncate([0usize, 1, 3, 4, 5, 9][r.below(6)]);
            let _ = f.reassemble(Bytes::from(d));
            cases += 1;
        }
        f.timer();
        let _ = f.verif_pending();
    }
    // ---- stream frame reader under segmentation (set_len over uninitialised capacity, then read)
    for _ in 0..n {
        let k = 1 + r.below(3);
        let mut bytes = vec![];
        let mut want = vec![];
        for _ in 0..k {
            let blen = [0usize, 1, 17, 300, 2000][r.below(5)];
            let fr = mk_frame(&mut r, blen);
            bytes.extend(flat(fr.as_buffer()));
            want.push((fr.addr.clone(), fr.session_id, fr.body.clone()));
        }
        let mut segs = std::collections::VecDeque::new();
        let mut rest = &bytes[..];
        while !rest.is_empty() {
            let cap = if r.below(3) == 0 { 3 } else { 700 };
            let c = (1 + r.below(cap)).min(rest.len());
            segs.push_back(rest[..c].to_vec());
            rest = &rest[c..];
        }
        let nseg = segs.len();
        let io = Scripted { segs, pend: false, written: vec![] };
        let (mut rd, mut wr) = frames_from_stream(7, io);
        let got = block_on(async {
            let mut v = vec![];
            while let Ok(Some(f)) = rd.read().await {
                v.push((f.addr.clone(), f.session_id, f.body.clone()));
            }
            v
        });
        cases += 1;
        if nseg > 1 {
            distinct += 1;
        }
        if got != want {
            viol.push(format!("miri/stream frames differ under segmentation: {} of {} frames, {} segments", got.len(), want.len(), nseg));
        }
        // writer side
        let f = mk_frame(&mut r, 100);
        let _ = block_on(async { wr.write(f).await });
    }
    for v in &viol {
        println!("{{\"t\":\"viol\",\"property\":\"C11\",\"monitor\":\"miri\",\"sig\":\"{}\",\"count\":1,\"witness\":{{\"seed\":{}}}}}", v, seed);
    }
    println!(
        "{{\"t\":\"summary\",\"property\":\"C11\",\"monitor\":\"miri-seed{}\",\"evaluations\":{},\"distinct\":{},\"rule\":\"Miri interprets the real fragment.rs and frames.rs: fragment/reassemble round trips with shuffles, duplicates and hostile headers; stream frame reader under random segmentation. distinct = histories with >1 fragment / >1 segment\",\"samples\":[{{\"seed\":{},\"cases\":{}}}],\"extra\":{{\"miri\":true}},\"inconclusive\":0}}",
        seed, cases, distinct, seed, cases
    );
}
