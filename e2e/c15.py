"""C15 (end-to-end part) — rule replacement through POST /api/rules is atomic and all-or-nothing.
Versioned rule lists are posted (valid ones interleaved with invalid ones: syntax error, type error, unknown target, wrong
JSON shapes, at random positions) while 8 probe streams open tunnels; each probe's decision (the connector recorded in
/api/history for its source port) must be the decision of one list that was current during the probe; failed posts must
answer an error and leave GET /api/rules and the decisions unchanged."""
import asyncio
import json
import random
import time

from .lib import Out, Proxy, TcpOrigin, base_cfg, echo_handler, free_port, http_connect, now, open_conn, run_main, workdir

K = 8


def vlist(v):
    p = "request.listener == \"http\"" if v % 2 == 0 else "request.listener == \"nobody\""
    if v % 3 == 0:
        # a long first filter (a block list of a few kilobytes that never matches the probe)
        p = "(%s) || request.target.host _: [%s]" % (p, ", ".join('"blocked-%d.example"' % i for i in range(60 + 40 * (v % 7))))
    l = [{"filter": p, "target": "a%d" % (v % K)}]
    # lists of different lengths (8, 7, .. 4 rules); every fourth has no catch-all at its end, so that whatever an implementation
    # keeps of a longer predecessor decides the probe - which no version does
    for i in range(6 - (v % 5)):
        l.append({"filter": "request.target.port == %d" % (1000 + i), "target": "pad"})
    if v % 4 != 3:
        l.append({"target": "z%d" % (v % K)})
    return l


def decision(v):
    """None = the probe matches no rule of that version: refused, no connector"""
    if v % 2 == 0:
        return "a%d" % (v % K)
    return None if v % 4 == 3 else "z%d" % (v % K)


def bad(rng, v):
    l = vlist(v)
    if rng.random() < 0.33:
        l.insert(rng.randrange(len(l)), {"target": "pad"})   # an unconditional rule in the middle
    pos = rng.choice([rng.randrange(len(l) + 1), len(l)])   # anywhere; half of the time behind the unconditional last rule
    kind, item = rng.choice([
        ("syntax error", {"filter": "request.listener == ", "target": "a0"}),
        ("type error", {"filter": "request.target.port + 1", "target": "a0"}),
        ("unknown field", {"filter": "request.nosuch == 1", "target": "a0"}),
        ("unknown target", {"target": "no-such-upstream"}),
        ("unknown target", {"filter": "request.target.port == 7", "target": "no-such-upstream"}),
        ("mixed comparison", {"filter": "1 == \"a\"", "target": "a0"}),
        ("wrong shape", {"filter": 5, "target": "a0"}),
        ("missing target", {"filter": "true"}),
        ("syntax error in a deny rule", {"filter": "request.listener == ", "target": "deny"}),
        ("type error in a deny rule", {"filter": "request.target.port + 1", "target": "deny"}),
        ("unknown field in a deny rule", {"filter": "request.nosuch == 1", "target": "deny"}),
        ("mixed comparison in a deny rule", {"filter": "1 == \"a\"", "target": "deny"}),
    ])
    l.insert(pos, item)
    return kind, l


def strip(doc):
    return [(r.get("target"), r.get("filter")) for r in doc]


async def main(args):
    out = Out("C15", "c15-e2e", "POST /api/rules with versioned 8-rule lists (valid) and invalid lists (syntax error, type error, unknown field, unknown target, mixed comparison, wrong JSON shapes at a random position), interleaved with 8 concurrent probe streams; decisions read from /api/history by source port and checked against the versions current during each probe; GET /rules compared before/after every rejected post; a 900-rule list posted while invalid lists arrive every 10 ms. distinct = distinct (version window, decision) of probes that overlapped a post, and (kind of invalid list)")
    rng = random.Random(args.seed)
    wd = workdir("c15")
    origin = await TcpOrigin(echo_handler, host="127.0.0.1").start()
    P = {"http": free_port(), "api": free_port()}
    connectors = [{"name": "pad", "type": "direct"}] + [{"name": "%s%d" % (c, i), "type": "direct"} for c in "az" for i in range(K)]
    A = Proxy(args.bin, base_cfg([{"name": "http", "bind": "127.0.0.1:%d" % P["http"]}], connectors, vlist(0), metrics_port=P["api"], history=200000), "A", wd)
    try:
        await A.start()
        wlog = [(0, 0.0, 0.0)]
        stop = asyncio.Event()
        n_posts = 600 if args.thorough else 120

        async def writer():
            v = 0
            for i in range(n_posts):
                if rng.random() < 0.35:
                    kind, l = bad(rng, v + 1)
                    out.case()
                    before = (await A.api_json("/rules"))
                    st, _, body = await A.api("POST", "/rules", l, 10)
                    after = (await A.api_json("/rules"))
                    out.nontrivial(("invalid", kind))
                    if st == 200:
                        out.violation("invalid rule list accepted by POST /rules (%s)" % kind, {"rules": l})
                        await A.api("POST", "/rules", vlist(v), 10)
                    elif strip(before) != strip(after):
                        out.violation("rejected POST /rules (%s) changed the rule list" % kind, {"before": strip(before), "after": strip(after)})
                        await A.api("POST", "/rules", vlist(v), 10)
                else:
                    v += 1
                    t1 = now()
                    st, _, body = await A.api("POST", "/rules", vlist(v), 10)
                    t2 = now()
                    out.case()
                    if st != 200:
                        out.violation("valid rule list rejected by POST /rules", {"status": st, "body": body[:200].decode("latin1")})
                        v -= 1
                    else:
                        wlog.append((v, t1, t2))
                        if i % 4 == 1:
                            listed = await A.api_json("/rules")
                            if strip(listed) != strip(vlist(v)):
                                out.violation("rule list in force after a successful POST /rules is not the posted one", {"posted_rules": len(vlist(v)), "listed_rules": len(listed)})
                        if i % 10 == 0:
                            # read-then-post of the same document
                            doc = await A.api_json("/rules")
                            t1 = now()
                            st, _, _ = await A.api("POST", "/rules", doc, 10)
                            if st != 200:
                                out.violation("posting back the document read from GET /rules is rejected", {"status": st})
                await asyncio.sleep(rng.choice([0, 0, 0.002, 0.01]))
            stop.set()
        probes = []

        async def reader(k):
            while not stop.is_set():
                t1 = now()
                wall = time.time()
                try:
                    c = await open_conn("127.0.0.1", P["http"])
                    st, _ = await http_connect(c, "127.0.0.1", origin.port)
                    t2 = now()
                    probes.append((c.local[1], t1, t2, st, wall))
                    c.close()
                except Exception:
                    pass
                await asyncio.sleep(0.001)
        await asyncio.gather(writer(), *[reader(k) for k in range(8)])
        await asyncio.sleep(2.3)
        hist = await A.api_json("/history", timeout=30)
        # a source port can be used again later in the run: the record of a probe is the one that started when the probe did
        by_port = {}
        for h in hist:
            by_port.setdefault(int(h["source"].rsplit(":", 1)[1]), []).append(h)
        overlapped = 0
        for (port, t1, t2, st, wall) in probes:
            out.case()
            cands_h = [h for h in by_port.get(port, []) if h.get("state") and abs(h["state"][0]["time"] / 1000.0 - wall) < 2.0]
            if len(cands_h) != 1:
                continue
            h = cands_h[0]
            got = h.get("connector") or None
            last_before = 0
            for i, (v, c, r) in enumerate(wlog):
                if r <= t1:
                    last_before = i
            cands = [wlog[last_before][0]] + [v for (v, c, r) in wlog[last_before + 1:] if c <= t2]
            if len(cands) > 1:
                overlapped += 1
                out.nontrivial((tuple(cands), got))
            legal = [decision(v) for v in cands]
            if got not in legal:
                out.violation("request decided by no single rule list that was current during it (torn, stale or mixed rules)",
                              {"decision": got, "candidate_versions": cands, "their_decisions": legal})
        out.setx("probes", len(probes))
        out.setx("successful_posts", len(wlog))
        out.setx("probes_overlapping_a_post", overlapped)
        out.sample({"posts": n_posts, "probes": len(probes), "overlapping": overlapped, "example_list": vlist(2)})
        if overlapped == 0:
            out.inconclusive += 1
        # ---- overlapping replacement calls: a big valid list is still being compiled when invalid lists arrive. Each call is
        # all-or-nothing on its own: the rejected ones change nothing, and the valid one, once it has answered 200, is in force
        hosts = ", ".join('"blocked-%d.example"' % i for i in range(60))
        for rnd in range(10 if args.thorough else 4):
            out.case()
            want = "a%d" % ((rnd + 3) % K)
            big = [{"filter": "request.listener == \"http\"", "target": want}] + [{"filter": "request.target.host _: [%s] && request.target.port == %d" % (hosts, 2000 + i), "target": "pad"} for i in range(900)]
            done = asyncio.Event()
            overl = []

            async def spoil():
                while not done.is_set():
                    t1 = now()
                    try:
                        st, _, _ = await A.api("POST", "/rules", [{"target": "z0"}, rng.choice([{"target": "no-such-upstream"}, {"filter": "request.listener == ", "target": "a0"}, {"filter": "request.target.port + 1", "target": "a0"}])], 30)
                    except Exception:
                        st = None
                    overl.append((t1, now(), st))
                    await asyncio.sleep(0.01)
            sp = asyncio.ensure_future(spoil())
            await asyncio.sleep(0.03)
            t1 = now()
            try:
                st, _, body = await A.api("POST", "/rules", big, 60)
            except Exception as e:
                st, body = None, repr(e).encode()
            t2 = now()
            done.set()
            await sp
            inside = [o for o in overl if o[0] > t1 and o[1] < t2]
            out.nontrivial(("overlapping-replacements", st, min(len(inside), 3)))
            if any(o[2] == 200 for o in overl):
                out.violation("invalid rule list accepted by POST /rules (posted while another replacement was in progress)", {"round": rnd})
            if st != 200:
                out.violation("valid rule list rejected by POST /rules", {"status": st, "body": body[:200].decode("latin1"), "rules": len(big), "overlapping_invalid_posts": len(inside)})
                continue
            listed = await A.api_json("/rules", timeout=30)
            wall = time.time()
            c = await open_conn("127.0.0.1", P["http"])
            stc, _ = await http_connect(c, "127.0.0.1", origin.port)
            src = c.local[1]
            c.close()
            await asyncio.sleep(0.1)
            got, found = None, False
            for _ in range(40):
                hist = await A.api_json("/history", timeout=60)
                # a source port can have been used by an earlier probe of this run: the record is the one that started now
                rec = next((h for h in hist if int(h["source"].rsplit(":", 1)[1]) == src and h.get("state") and abs(h["state"][0]["time"] / 1000.0 - wall) < 3.0), None)
                if rec is not None:
                    got, found = rec.get("connector"), True
                    break
                await asyncio.sleep(0.25)
            if not found:
                out.inconclusive += 1      # the probe's record could not be identified: no verdict on the decision, the listing is still judged
                got = want
            if len(listed) != len(big) or (listed and listed[0].get("target") != want) or got != want:
                out.violation("rule list in force after a successful POST /rules is not the posted one (invalid lists were posted while it was being compiled)",
                              {"posted_rules": len(big), "listed_rules": len(listed), "first_target_listed": listed[0].get("target") if listed else None, "first_target_posted": want,
                               "probe_decided_by": got, "invalid_posts_during_the_call": len(inside), "call_took_s": round(t2 - t1, 2)})
            out.count("overlapping_invalid_posts", len(inside))
        if not A.alive():
            out.violation("proxy process died", {"rc": A.exit_status(), "stderr": A.stderr_tail(600)})
    finally:
        A.cleanup()
        await origin.stop()
    out.finish()


if __name__ == "__main__":
    run_main(main)
