"""C07 — configured peer authentication is enforced on every path.
(a) SOCKS credentials: every offered-method set/order x continuation against a listener that requires credentials
    (user list + external command with verdict cache); 'routed' is observed at the origin; the command's argv log is
    checked (placeholders replaced literally) and served verdicts are checked against the command history (cache).
(b) TLS client certificates: listener kind {http, socks, quic} x policy {absent, optional, required} x presented
    {none, valid, foreign CA}.
(c) Connector verification: connector kind {http, socks, quic} x insecure x CA {right, foreign, absent} x upstream
    certificate {valid, foreign CA, wrong name}: without `insecure` a tunnel exists only for (right CA, valid cert)."""
import asyncio
import itertools
import os
import random
import ssl
import struct
import time

from .lib import (FIX, Out, ProtoError, Proxy, TcpOrigin, addr_v5, base_cfg, client_ssl, echo_handler, free_port, fx, http_connect, now, open_conn,
                  run_main, socks5_connect, tls_client, tls_server, workdir)

CACHE_T = 2


def hexs(b):
    return b.hex()


class AuthTable:
    def __init__(self, wd):
        self.dir = os.path.join(wd, "auth")
        os.makedirs(self.dir, exist_ok=True)
        open(os.path.join(self.dir, "log"), "w").close()
        self.entries = set()
        self.history = []  # (t, frozenset(entries))
        self.write()

    def write(self):
        with open(os.path.join(self.dir, "table.tmp"), "w") as f:
            for u, p in self.entries:
                f.write("%s:%s\n" % (hexs(u), hexs(p)))
        os.replace(os.path.join(self.dir, "table.tmp"), os.path.join(self.dir, "table"))
        self.history.append((time.time(), frozenset(self.entries)))

    def set(self, entries):
        self.entries = set(entries)
        self.write()

    def log(self):
        out = []
        with open(os.path.join(self.dir, "log")) as f:
            for l in f:
                parts = l.rstrip("\n").split("\t")
                if len(parts) == 5:
                    out.append((float(parts[0]), int(parts[1]), bytes.fromhex(parts[2]), bytes.fromhex(parts[3]), bytes.fromhex(parts[4])))
        return out

    def valid_at(self, u, p, t):
        cur = frozenset()
        for (ht, ent) in self.history:
            if ht <= t:
                cur = ent
        return (u, p) in cur


async def socks_attempt(port, methods, cont, cred, target, v4id=None):
    """returns dict(result, reply) ; result in routed-success / refused / closed"""
    c = await open_conn("127.0.0.1", port)
    try:
        if v4id is not None:
            c.write(bytes([4, 1]) + struct.pack(">H", target[1]) + bytes([127, 0, 0, 1]) + v4id + b"\0")
            await c.drain()
            try:
                rep = await c.read_exact(8, timeout=4)
                return {"result": "success" if rep[1] == 90 else "refused"}
            except Exception:
                return {"result": "closed"}
        c.write(bytes([5, len(methods)] + list(methods)))
        await c.drain()
        try:
            sel = await c.read_exact(2, timeout=4)
        except Exception:
            return {"result": "closed"}
        if sel[1] == 0xFF:
            return {"result": "refused", "selected": 0xFF}
        req = bytes([5, 1, 0]) + addr_v5(*target)
        if cont == "creds" or (cont == "auto" and sel[1] == 2):
            u, p = cred
            c.write(bytes([1, len(u)]) + u + bytes([len(p)]) + p)
            await c.drain()
            if sel[1] == 2:
                try:
                    await c.read_exact(2, timeout=4)
                except Exception:
                    return {"result": "closed", "selected": sel[1]}
        c.write(req)
        await c.drain()
        try:
            head = await c.read_exact(4, timeout=4)
            ok = head[0] == 5 and head[1] == 0
            return {"result": "success" if ok else "refused", "selected": sel[1]}
        except Exception:
            return {"result": "closed", "selected": sel[1]}
    finally:
        c.close()


async def part_socks(out, args, rng, wd, origin):
    table = AuthTable(wd)
    P = {k: free_port() for k in ("req", "opt", "nocache", "api")}
    users = [{"username": "alice", "password": "s3cret"}, {"username": "bob", "password": ""}]
    auth = {"required": True, "users": users, "cmd": [fx("authcmd.sh"), "tag", "#USER#", "#PASS#"], "cache": {"timeout": CACHE_T}}
    listeners = [{"name": "req", "type": "socks", "bind": "127.0.0.1:%d" % P["req"], "auth": auth},
                 {"name": "opt", "type": "socks", "bind": "127.0.0.1:%d" % P["opt"], "auth": dict(auth, required=False)},
                 {"name": "nocache", "type": "socks", "bind": "127.0.0.1:%d" % P["nocache"], "auth": dict(auth, cache={"timeout": 0})}]
    A = Proxy(args.bin, base_cfg(listeners, [{"name": "direct"}], [{"target": "direct"}], metrics_port=P["api"]), "S", wd, env={"AUTH_DIR": table.dir})
    await A.start()
    accepted = origin.accepted
    try:
        table.set({(b"carol", b"pw1"), (b"#PASS#", b"x"), (b"dave", b"#USER#"), (b"u" * 255, b"p" * 255)})
        creds = [
            ((b"alice", b"s3cret"), True, "listed user"),
            ((b"alice", b"wrong"), False, "wrong password"),
            ((b"alice", b""), False, "empty password"),
            ((b"mallory", b"s3cret"), False, "wrong user"),
            ((b"", b""), False, "empty user"),
            ((b"bob", b""), True, "listed user with empty password"),
            ((b"carol", b"pw1"), True, "command user"),
            ((b"carol", b"pw2"), False, "command user wrong password"),
            ((b"u" * 255, b"p" * 255), True, "255-byte credentials"),
            ((b"u" * 255, b"p" * 254), False, "255-byte user wrong password"),
            ((b"#PASS#", b"x"), True, "user name that is a placeholder"),
            ((b"dave", b"#USER#"), True, "password that is a placeholder"),
            ((b"x", b"#PASS#"), False, "placeholder password not in table"),
            ((b"ali\xffce", b"s3cret"), False, "non-UTF-8 user"),
            ((b"alice\0", b"s3cret"), False, "user with NUL"),
            ((b"ALICE", b"s3cret"), False, "case-changed user"),
            ((b"crashme", b"x"), False, "user for whom the auth command dies from a signal"),
        ]
        method_sets = [[0], [2], [0, 2], [2, 0], [1], [0x80], [0xFF], [1, 0x80, 2], [0, 1, 2, 0x80], [2, 2], []]
        n = 0
        for methods in method_sets:
            for cont in ("auto", "none", "creds"):
                for (cred, valid, what) in (creds if cont != "none" else creds[:2]):
                    if not args.thorough and rng.random() < 0.55 and what not in ("listed user", "wrong password", "user name that is a placeholder", "password that is a placeholder"):
                        continue
                    n += 1
                    out.case()
                    before = len(accepted)
                    try:
                        r = await socks_attempt(P["req"], methods, cont, cred, ("127.0.0.1", origin.port))
                    except Exception as e:
                        r = {"result": "closed", "error": repr(e)}
                    await asyncio.sleep(0.01)
                    routed = len(accepted) > before or r["result"] == "success"
                    # the peer has valid credentials only if it actually went through the sub-negotiation with them
                    presented = valid and 2 in methods and cont in ("auto", "creds")
                    if routed and not presented:
                        out.violation("request routed for a SOCKS5 peer without valid credentials on a listener that requires them",
                                      {"methods_offered": methods, "continuation": cont, "credentials": what, "result": r})
                    if presented and cont == "auto" and not routed:
                        out.violation("valid credentials refused", {"methods_offered": methods, "credentials": what, "result": r})
                    out.nontrivial(("socks5", tuple(methods), cont, what))
                    if n < 4:
                        out.sample({"methods": methods, "continuation": cont, "credentials": what, "routed": routed})
        # SOCKS4 ids against the required listener: (id, "") must be a listed user or accepted by the command
        for vid, valid in ((b"bob", True), (b"alice", False), (b"", False), (b"nobody", False)):
            out.case()
            before = len(accepted)
            r = await socks_attempt(P["req"], None, None, None, ("127.0.0.1", origin.port), v4id=vid)
            await asyncio.sleep(0.01)
            routed = len(accepted) > before or r["result"] == "success"
            if routed and not valid:
                out.violation("request routed for a SOCKS4 peer whose id is not a valid credential", {"id": vid.decode(), "result": r})
            if valid and not routed:
                out.violation("valid credentials refused", {"socks4_id": vid.decode(), "result": r})
            out.nontrivial(("socks4", vid))
        # ---- argv of the external command: placeholders replaced literally, nothing else
        for (t, argc, a1, a2, a3) in table.log():
            out.case()
            if argc != 3 or a1 != b"tag":
                out.violation("external auth command invoked with a malformed argument vector", {"argc": argc, "argv1": a1.decode("latin1")})
        logged = {(a2, a3) for (_, _, _, a2, a3) in table.log()}
        asked = {c for (c, _, _) in creds}
        for (u, p) in logged:
            if (u, p) not in asked and (u, b"") not in {(x, b"") for x in (b"bob", b"alice", b"", b"nobody")}:
                out.violation("external auth command was given other credentials than the peer sent (placeholder substitution is not literal)",
                              {"argv_user": u.decode("latin1"), "argv_pass": p.decode("latin1")})
        # ---- verdict cache histories
        async def attempt(u, p, alone=True):
            before = len(accepted)
            r = await socks_attempt(P["req"], [2], "auto", (u, p), ("127.0.0.1", origin.port))
            await asyncio.sleep(0.01)
            # the origin-side count can only be attributed to this attempt when nothing else runs concurrently
            return (alone and len(accepted) > before) or r["result"] == "success"
        hist = []
        table.set({(b"erin", b"good")})
        for (u, p) in ((b"erin", b"good"), (b"erin", b"bad"), (b"erin", b"good"), (b"frank", b"good"), (b"erin", b"goo")):
            hist.append((time.time(), u, p, await attempt(u, p)))
        # credentials whose concatenation equals a cached accepted pair are different credentials
        for (u, p) in ((b"eri", b"ngood"), (b"ering", b"ood"), (b"eringood", b""), (b"", b"eringood")):
            ok = await attempt(u, p)
            out.case()
            out.nontrivial(("cache-collision", u, p))
            if ok:
                out.violation("cached password verdict reused for different credentials", {"cached": "erin/good", "accepted": "%s/%s" % (u.decode(), p.decode())})
        table.set(set())  # revoke
        hist.append((time.time(), b"erin", b"good", await attempt(b"erin", b"good")))   # may still be cached
        hist.append((time.time(), b"erin", b"bad", await attempt(b"erin", b"bad")))
        await asyncio.sleep(CACHE_T + 1.2)
        hist.append((time.time(), b"erin", b"good", await attempt(b"erin", b"good")))   # must be re-checked now
        table.set({(b"erin", b"bad")})
        await asyncio.sleep(CACHE_T + 1.2)
        hist.append((time.time(), b"erin", b"bad", await attempt(b"erin", b"bad")))
        hist.append((time.time(), b"erin", b"good", await attempt(b"erin", b"good")))
        # concurrent first attempts
        table.set({(b"gina", b"pw")})
        res = await asyncio.gather(*[attempt(b"gina", b"pw", False) for _ in range(6)] + [attempt(b"gina", b"no", False) for _ in range(6)])
        for i, ok in enumerate(res):
            hist.append((time.time(), b"gina", b"pw" if i < 6 else b"no", ok))
        cmdlog = table.log()
        for (t, u, p, served) in hist:
            out.case()
            # a served verdict must equal the table's verdict at some time in [t - timeout - slack, t] at which the
            # command was run for the identical (u, p)
            runs = [lt for (lt, _, _, a2, a3) in cmdlog if a2 == u and a3 == p and t - CACHE_T - 1.0 <= lt <= t + 0.5]
            legal = {table.valid_at(u, p, lt) for lt in runs}
            out.nontrivial(("cache", u, p, served, len(runs)))
            if served not in legal:
                out.violation("password verdict served that no command run for the identical credentials within the cache lifetime produced",
                              {"user": u.decode(), "pass": p.decode(), "served": served, "command_runs_in_window": len(runs), "their_verdicts": sorted(legal)})
        # ---- cache lifetime 0 = no cache: a verdict is never served again
        async def attempt0(u, p):
            r = await socks_attempt(P["nocache"], [2], "auto", (u, p), ("127.0.0.1", origin.port))
            return r["result"] == "success"
        table.set({(b"hal", b"pw")})
        first = await attempt0(b"hal", b"pw")
        second = await attempt0(b"hal", b"pw")
        table.set(set())
        await asyncio.sleep(1.5)
        after_revoke = await attempt0(b"hal", b"pw")
        table.set({(b"hal", b"new")})
        await asyncio.sleep(0.2)
        new_pw = await attempt0(b"hal", b"new")
        out.case()
        out.nontrivial(("cache-timeout-0", first, second, after_revoke, new_pw))
        if not (first and second and new_pw):
            out.violation("valid credentials refused on a listener with cache timeout 0", {"first": first, "second": second, "new_password": new_pw})
        if after_revoke:
            out.violation("password verdict served from a cache although the cache lifetime is 0 (revoked credentials still accepted)", {"seconds_after_revocation": 1.5})
        out.setx("auth_command_runs", len(cmdlog))
        if not A.alive():
            out.violation("proxy process died", {"rc": A.exit_status(), "stderr": A.stderr_tail(600)})
    finally:
        A.kill()


async def part_client_certs(out, args, rng, wd, origin):
    policies = {"absent": None, "optional": ("ca", False), "required": ("ca", True)}
    P = {}
    listeners = []
    for pol, v in policies.items():
        for kind in ("http", "socks", "quic"):
            name = "%s-%s" % (kind, pol)
            P[name] = free_port()
            tls = tls_server(client_ca=v[0], required=v[1]) if v else tls_server()
            listeners.append({"name": name, "type": kind, "bind": "127.0.0.1:%d" % P[name], "tls": tls})
    P["api"] = free_port()
    A = Proxy(args.bin, base_cfg(listeners, [{"name": "direct"}], [{"target": "direct"}], metrics_port=P["api"]), "T", wd)
    await A.start()
    clients = []
    try:
        for pol in policies:
            for presented in ("none", "valid", "foreign"):
                cert = {"none": None, "valid": "client", "foreign": "client-foreign"}[presented]
                must_refuse = pol == "required" and presented != "valid"
                for kind in ("http", "socks"):
                    out.case()
                    before = len(origin.accepted)
                    routed = False
                    try:
                        c = await open_conn("127.0.0.1", P["%s-%s" % (kind, pol)], tls=client_ssl(cert=cert))
                        if kind == "http":
                            st, _ = await http_connect(c, "127.0.0.1", origin.port)
                            routed = st == 200
                        else:
                            rep, _, _ = await socks5_connect(c, "127.0.0.1", origin.port)
                            routed = rep == 0
                        c.close()
                    except (ssl.SSLError, ConnectionError, OSError, ProtoError, asyncio.TimeoutError, asyncio.IncompleteReadError):
                        pass
                    await asyncio.sleep(0.02)
                    routed = routed or len(origin.accepted) > before
                    out.nontrivial(("client-cert", kind, pol, presented, routed))
                    if routed and must_refuse:
                        out.violation("request routed for a TLS peer without a valid client certificate although the %s listener requires one" % kind, {"policy": pol, "presented": presented})
                    if not routed and (pol == "absent" or presented == "valid" or (pol == "optional" and presented == "none")):
                        out.violation("legitimate TLS client refused", {"listener": kind, "policy": pol, "presented": presented})
                # QUIC: the client is another redproxy whose quic connector presents the certificate
                out.case()
                cp = free_port()
                capi = free_port()
                conn = {"name": "q", "type": "quic", "server": "localhost", "port": P["quic-%s" % pol], "tls": tls_client(auth=cert), "bind": "127.0.0.1:0"}
                C = Proxy(args.bin, base_cfg([{"name": "http", "bind": "127.0.0.1:%d" % cp}], [conn], [{"target": "q"}], metrics_port=capi), "Q%s%s" % (pol, presented), wd)
                clients.append(C)
                await C.start()
                before = len(origin.accepted)
                routed = False
                try:
                    c = await open_conn("127.0.0.1", cp)
                    st, _ = await asyncio.wait_for(http_connect(c, "127.0.0.1", origin.port), 6)
                    routed = st == 200
                    c.close()
                except Exception:
                    pass
                await asyncio.sleep(0.05)
                routed = routed or len(origin.accepted) > before
                out.nontrivial(("client-cert", "quic", pol, presented, routed))
                if routed and must_refuse:
                    out.violation("request routed for a TLS peer without a valid client certificate although the quic listener requires one", {"policy": pol, "presented": presented})
                if not routed and (pol == "absent" or presented == "valid" or (pol == "optional" and presented == "none")):
                    out.violation("legitimate TLS client refused", {"listener": "quic", "policy": pol, "presented": presented})
                C.kill()
        if not A.alive():
            out.violation("proxy process died", {"rc": A.exit_status(), "stderr": A.stderr_tail(600)})
    finally:
        A.kill()
        for c in clients:
            c.kill()


async def part_connectors(out, args, rng, wd, origin):
    # three upstream proxies, one per certificate flavour
    ups = {}
    procs = []
    for flavour, cert in (("valid", "server"), ("foreign", "server-foreign"), ("wrongname", "server-wrongname")):
        p = {k: free_port() for k in ("https", "sockstls", "quic", "api")}
        ls = [{"name": "https", "type": "http", "bind": "127.0.0.1:%d" % p["https"], "tls": tls_server(cert=cert)},
              {"name": "sockstls", "type": "socks", "bind": "127.0.0.1:%d" % p["sockstls"], "tls": tls_server(cert=cert)},
              {"name": "quic", "bind": "127.0.0.1:%d" % p["quic"], "tls": tls_server(cert=cert)}]
        B = Proxy(args.bin, base_cfg(ls, [{"name": "direct"}], [{"target": "direct"}], metrics_port=p["api"]), "U" + flavour, wd)
        procs.append(B)
        ups[flavour] = p
    combos = [c + ("localhost",) for c in itertools.product(("http", "socks", "quic"), (False, True), ("right", "foreign", "absent"), ("valid", "foreign", "wrongname"))]
    # the upstream named by ADDRESS (as the shipped sample configuration does): a certificate issued for some name never verifies
    # for an address, whatever CA signed it
    combos += [c + ("127.0.0.1",) for c in itertools.product(("http", "socks"), (False,), ("right", "foreign"), ("valid", "foreign", "wrongname"))]
    connectors, rules = [], []
    for i, (kind, insecure, ca, flavour, server) in enumerate(combos):
        name = "c%d" % i
        caname = {"right": "ca", "foreign": "foreign-ca", "absent": None}[ca]
        tls = tls_client(ca=caname, insecure=insecure)
        port = ups[flavour][{"http": "https", "socks": "sockstls", "quic": "quic"}[kind]]
        c = {"name": name, "type": kind, "server": server, "port": port, "tls": tls}
        if kind == "quic":
            c["bind"] = "127.0.0.1:0"
        connectors.append(c)
        rules.append({"filter": "request.target.port == %d" % (3000 + i), "target": name})
    # the origin is reached through the upstream; the tag port only selects the connector, so B must reach the origin:
    # use a reverse mapping: the CONNECT target is the tag port and every B rewrites nothing -> use listener 'http' on A with
    # target origin via header is not possible; instead each connector gets its own reverse listener on A.
    listeners = []
    P = {"api": free_port()}
    rules = []
    for i in range(len(combos)):
        P[i] = free_port()
        listeners.append({"name": "r%d" % i, "type": "reverse", "bind": "127.0.0.1:%d" % P[i], "target": "127.0.0.1:%d" % origin.port})
        rules.append({"filter": "request.listener == \"r%d\"" % i, "target": "c%d" % i})
    A = Proxy(args.bin, base_cfg(listeners, connectors, rules, metrics_port=P["api"]), "V", wd)
    procs.append(A)
    try:
        for p in procs:
            await p.start()

        async def one(i, combo):
            kind, insecure, ca, flavour, server = combo
            out.case()
            established = False
            try:
                c = await open_conn("127.0.0.1", P[i])
                c.write(b"ping-%d" % i)
                await c.drain()
                got = await c.read_exact(len(b"ping-%d" % i), timeout=5)
                established = got == b"ping-%d" % i
                c.close()
            except Exception:
                pass
            out.nontrivial(("connector", kind, insecure, ca, flavour, established, server))
            # acceptable = chains to the CONFIGURED CA and is issued for the configured server name
            legit = ((ca == "right" and flavour == "valid") or (ca == "foreign" and flavour == "foreign")) and server == "localhost"
            w = {"connector": kind, "insecure": insecure, "ca": ca, "upstream_certificate": flavour, "server_configured_as": server}
            if not insecure and established and not legit:
                out.violation("tunnel established through an upstream whose certificate does not verify (%s connector)" % kind, w)
            if established is False and (legit or insecure):
                out.violation("tunnel refused although the upstream certificate is acceptable for this configuration (%s connector)" % kind, w)
            out.sample(dict(w, established=established), cap=10)
        for i in range(0, len(combos), 9):
            await asyncio.gather(*[one(i + j, combo) for j, combo in enumerate(combos[i:i + 9])])
        for p in procs:
            if not p.alive():
                out.violation("proxy process died", {"proxy": p.name, "rc": p.exit_status(), "stderr": p.stderr_tail(600)})
    finally:
        for p in procs:
            p.kill()


async def main(args):
    out = Out("C07", "c07", "SOCKS5: every offered-method set x continuation x credential class against a credentials-required listener (user list + external command + verdict cache), SOCKS4 ids, argv log of the command, cache histories (right/wrong/right, revocation before and after expiry, concurrent first attempts); TLS client certificates: listener {http, socks, quic} x policy {absent, optional, required} x presented {none, valid, foreign}; connector verification: {http, socks, quic} x insecure x CA {right, foreign, absent} x upstream cert {valid, foreign, wrong name} x server given as name or as address. distinct = distinct attempt descriptors")
    rng = random.Random(args.seed)
    wd = workdir("c07")
    origin = await TcpOrigin(echo_handler, host="127.0.0.1").start()
    try:
        await part_socks(out, args, rng, wd, origin)
        await part_client_certs(out, args, rng, wd, origin)
        await part_connectors(out, args, rng, wd, origin)
    finally:
        await origin.stop()
        import shutil
        shutil.rmtree(wd, ignore_errors=True)
    out.finish()


if __name__ == "__main__":
    run_main(main)
