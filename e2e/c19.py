"""C19 — service resumes after an upstream outage without restarting the proxy.
A supervisor kills / stops / restarts upstream proxies and origins at chosen phases while probe streams run; recovery is
judged from the moment the harness itself has verified that the upstream is reachable again: probes routed to it must
succeed within N_MAX attempts and T_MAX seconds; tunnels open across a hard outage must end on both sides with an error
record; probes on an unrelated upstream must keep working throughout."""
import asyncio
import random
import signal
import socket
import struct

from .lib import (Out, Proxy, TcpOrigin, base_cfg, echo_handler, free_port, now, open_conn, run_main, tls_client, tls_server, workdir)

N_MAX = 3
T_MAX = {"direct": 15.0, "h": 15.0, "s5": 15.0, "lb": 15.0, "q": 50.0, "qx": 50.0}   # the QUIC connector needs its idle timeout to notice a dead peer
CLOSE_MAX = {"direct": 3.0, "h": 3.0, "s5": 3.0, "lb": 3.0, "q": 50.0, "qx": 50.0}
KINDS = ["direct", "h", "s5", "q", "lb"]
# "qx": the quic connector against a QUIC server that is not a redproxy (harness/inproc/quicup.rs) and that can go away politely,
# i.e. with CONNECTION_CLOSE, as real QUIC servers do on shutdown (a killed redproxy never says goodbye)


class QuicUp:
    def __init__(self, binary, port, wd):
        self.binary, self.port, self.wd, self.proc = binary, port, wd, None

    async def start(self):
        import os
        env = dict(os.environ, REDPROXY_VERIF_INPROC="quicup", RUST_BACKTRACE="0")
        t = tls_server()
        self.proc = await asyncio.create_subprocess_exec(self.binary, "--bind", "127.0.0.1:%d" % self.port, "--cert", t["cert"], "--key", t["key"],
                                                         stdin=asyncio.subprocess.PIPE, stdout=asyncio.subprocess.PIPE, stderr=asyncio.subprocess.DEVNULL, env=env)
        line = await asyncio.wait_for(self.proc.stdout.readline(), 10)
        if not line.startswith(b"ready"):
            raise RuntimeError("quic upstream helper did not start: %r" % line)

    async def polite_close(self):
        """CONNECTION_CLOSE to every peer, then exit"""
        try:
            self.proc.stdin.write(b"close\n")
            await self.proc.stdin.drain()
            await asyncio.wait_for(self.proc.wait(), 5)
        except Exception:
            self.kill()

    def kill(self):
        if self.proc is not None and self.proc.returncode is None:
            try:
                self.proc.kill()
            except ProcessLookupError:
                pass

    async def killed(self):
        self.kill()
        try:
            await asyncio.wait_for(self.proc.wait(), 5)
        except Exception:
            pass
FAULTS = ["kill-restart", "term-restart", "stop-cont", "stop-kill-restart"]


class Scenario:
    def __init__(self, i, kind, fault, phase, outage, repeats):
        self.i, self.kind, self.fault, self.phase, self.outage, self.repeats = i, kind, fault, phase, outage, repeats
        self.name = "%s/%s/%s/%.1fs" % (kind, fault, phase, outage)
        self.B = None
        self.D = None
        self.Q = None
        self.writers = set()
        self.log = []


def reg_echo(writers):
    async def handler(r, w, origin, info):
        writers.add(w)
        try:
            await echo_handler(r, w, origin, info)
        finally:
            writers.discard(w)
    return handler


async def probe(port, timeout=5.0):
    t0 = now()
    try:
        c = await asyncio.wait_for(open_conn("127.0.0.1", port), timeout)
    except Exception as e:
        return "connect-error", now() - t0
    try:
        c.write(b"ping")
        await c.drain()
        b = await c.read_exact(4, timeout=timeout)
        return ("ok" if b == b"ping" else "corrupt"), now() - t0
    except asyncio.TimeoutError:
        return "hang", now() - t0
    except Exception:
        return "closed", now() - t0
    finally:
        c.close()


async def udp_outage(out, args, wd):
    """a reverse-UDP client with a fixed source port across an outage of its origin: while the origin is gone the client keeps
    sending (the proxy's upstream socket gets ICMP errors, the session ends in an error); when the origin is back the SAME client
    address must be served again within a few datagrams, without restarting the proxy"""
    import socket
    loop = asyncio.get_running_loop()
    oport = free_port()

    def origin_sock():
        o = socket.socket(socket.AF_INET, socket.SOCK_DGRAM)
        o.bind(("127.0.0.1", oport))
        o.setblocking(False)
        return o

    async def echo_loop(o):
        try:
            while True:
                d, a = await loop.sock_recvfrom(o, 65536)
                await loop.sock_sendto(o, b"echo:" + d, a)
        except (asyncio.CancelledError, OSError):
            pass
    P = {k: free_port() for k in ("rev", "api")}
    U = Proxy(args.bin, base_cfg([{"name": "rev", "type": "reverse", "protocol": "udp", "bind": "127.0.0.1:%d" % P["rev"], "target": "127.0.0.1:%d" % oport}], [{"name": "direct"}],
                                 [{"target": "direct"}], metrics_port=P["api"], timeouts={"idle": 600, "udp": 60}), "U", wd)
    o = origin_sock()
    et = asyncio.ensure_future(echo_loop(o))
    c = socket.socket(socket.AF_INET, socket.SOCK_DGRAM)
    c.bind(("127.0.0.1", 0))
    c.setblocking(False)

    async def ask(sock, data, timeout=1.0):
        await loop.sock_sendto(sock, data, ("127.0.0.1", P["rev"]))
        t_end = now() + timeout
        while now() < t_end:
            try:
                d, _ = await asyncio.wait_for(loop.sock_recvfrom(sock, 65536), max(0.05, t_end - now()))
                if d == b"echo:" + data:
                    return True
            except asyncio.TimeoutError:
                break
            except OSError:
                await asyncio.sleep(0.05)
        return False
    try:
        await U.start()
        await asyncio.sleep(0.2)
        for rnd in range(2 if not args.thorough else 4):
            out.case()
            if not (await ask(c, b"before-%d" % rnd) or await ask(c, b"before2-%d" % rnd)):
                out.violation("upstream unusable before any fault: udp origin via direct", {"round": rnd})
                return
            et.cancel()
            o.close()
            for i in range(6):
                await ask(c, b"during-%d-%d" % (rnd, i), 0.3)
            o = origin_sock()
            et = asyncio.ensure_future(echo_loop(o))
            attempts = 0
            ok = False
            while attempts < 8 and not ok:
                attempts += 1
                ok = await ask(c, b"after-%d-%d" % (rnd, attempts), 1.0)
            out.nontrivial(("udp", "origin-outage", rnd, ok))
            if not ok:
                c2 = socket.socket(socket.AF_INET, socket.SOCK_DGRAM)
                c2.bind(("127.0.0.1", 0))
                c2.setblocking(False)
                fresh = await ask(c2, b"fresh-%d" % rnd) or await ask(c2, b"fresh2-%d" % rnd)
                c2.close()
                out.violation("no recovery after the upstream became reachable again: udp client with a fixed source port (reverse listener via direct)",
                              {"attempts": attempts, "a_client_on_a_fresh_port_is_served": fresh, "U.stderr": U.stderr_tail(300)})
                return
            out.sample({"scenario": "udp origin outage, same client port", "round": rnd, "datagrams_until_served_again": attempts})
        if not U.alive():
            out.violation("proxy process died during upstream outages", {"rc": U.exit_status(), "stderr": U.stderr_tail(600)})
    finally:
        et.cancel()
        try:
            o.close()
        except Exception:
            pass
        c.close()
        U.kill()


async def shared_quic(out, args, wd, oport):
    """several tunnels share the quic connector's one connection: a request for an origin that is down fails (the upstream
    proxy answers 503) - the tunnels to the healthy origin on the same connection must not notice"""
    closed = free_port()
    PB = {k: free_port() for k in ("quic", "api")}
    PA = {k: free_port() for k in ("http", "api")}
    B = Proxy(args.bin, base_cfg([{"name": "quic", "bind": "127.0.0.1:%d" % PB["quic"], "tls": tls_server()}], [{"name": "direct"}], [{"target": "direct"}], metrics_port=PB["api"]), "SQB", wd)
    A = Proxy(args.bin, base_cfg([{"name": "http", "bind": "127.0.0.1:%d" % PA["http"]}],
                                 [{"name": "q", "type": "quic", "server": "localhost", "port": PB["quic"], "tls": tls_client(), "bind": "127.0.0.1:0"}], [{"target": "q"}], metrics_port=PA["api"]), "SQA", wd)
    from .lib import http_connect
    held = []
    try:
        await B.start()
        await A.start()
        for rnd in range(3):
            out.case()
            c = await open_conn("127.0.0.1", PA["http"])
            st, _ = await http_connect(c, "127.0.0.1", oport)
            if st != 200:
                out.violation("upstream unusable before any fault: q upstream (shared connection)", {"status": st, "round": rnd})
                return
            c.write(b"one")
            await c.drain()
            await c.read_exact(3, timeout=5)
            held.append(c)
            # a request through the same connector for an origin that refuses connections
            d = await open_conn("127.0.0.1", PA["http"])
            st2, _ = await http_connect(d, "127.0.0.1", closed)
            d.close()
            await asyncio.sleep(0.3)
            ok = True
            for k, h in enumerate(held):
                try:
                    h.write(b"still")
                    await h.drain()
                    if await h.read_exact(5, timeout=3) != b"still":
                        ok = False
                except Exception:
                    ok = False
            out.nontrivial(("q-shared", rnd, st2, ok))
            if not ok:
                out.violation("a tunnel to a healthy origin breaks when another request through the same quic connector fails",
                              {"round": rnd, "status_of_the_failing_request": st2, "tunnels_held": len(held)})
                return
        out.sample({"scenario": "shared quic connection, one origin down", "rounds": 3, "healthy_tunnels_kept": len(held)})
    finally:
        for h in held:
            h.close()
        A.kill()
        B.kill()


async def balancer_member_outages(out, args, wd, oport):
    """a round-robin balancer over two upstream proxies, one of which goes away and comes back several times while requests keep
    arriving (so the balancer accumulates many failed member connects over its life): after every return - verified by connecting
    to the member ourselves - requests through the balancer must succeed again within the usual three attempts, and a request that
    goes to the healthy member meanwhile is only counted. Nothing the balancer remembers from failures may outlive the outage."""
    from .lib import http_connect
    PB = [{k: free_port() for k in ("http", "api")} for _ in range(2)]
    PA = {k: free_port() for k in ("http", "api")}
    Bs = [Proxy(args.bin, base_cfg([{"name": "http", "bind": "127.0.0.1:%d" % PB[i]["http"]}], [{"name": "direct"}], [{"target": "direct"}], metrics_port=PB[i]["api"]), "LBM%d" % i, wd) for i in range(2)]
    A = Proxy(args.bin, base_cfg([{"name": "http", "bind": "127.0.0.1:%d" % PA["http"]}],
                                 [{"name": "m0", "type": "http", "server": "127.0.0.1", "port": PB[0]["http"]}, {"name": "m1", "type": "http", "server": "127.0.0.1", "port": PB[1]["http"]},
                                  {"name": "lb", "type": "loadbalance", "connectors": ["m0", "m1"], "algo": "rr"}], [{"target": "lb"}], metrics_port=PA["api"]), "LBA", wd)

    async def one():
        c = None
        try:
            c = await open_conn("127.0.0.1", PA["http"])
            st, _ = await asyncio.wait_for(http_connect(c, "127.0.0.1", oport), 5)
            if st != 200:
                return False, st
            c.write(b"ping")
            await c.drain()
            return (await c.read_exact(4, timeout=5)) == b"ping", st
        except Exception as e:
            return False, type(e).__name__
        finally:
            if c is not None:
                c.close()
    try:
        for B in Bs:
            await B.start()
        await A.start()
        out.case()
        for k in range(6):
            ok, st = await one()
            if not ok:
                out.violation("upstream unusable before any fault: lb upstream (member outages)", {"status": st, "request": k})
                return
        failed_total = 0
        for cycle in range(4 if args.thorough else 3):
            out.case()
            victim = Bs[cycle % 2]
            victim.kill()
            ok_n = fail_n = 0
            for k in range(14 + 6 * cycle):
                ok, st = await one()
                ok_n += ok
                fail_n += (not ok)
            failed_total += fail_n
            await victim.start()     # returns once we could connect to its listener ourselves
            attempts = []
            t0 = now()
            for k in range(6):
                ok, st = await one()
                attempts.append(st if not ok else "ok")
            good = attempts[:6].count("ok")
            out.nontrivial(("lb-member-outages", cycle, fail_n > 0, good))
            out.count("balancer_requests_failed_during_member_outages", fail_n)
            out.count("balancer_requests_served_by_the_healthy_member_during_outages", ok_n)
            if "ok" not in attempts[:3]:
                out.violation("service through the load balancer does not resume after a member's outage ended (the member accepts connections again)",
                              {"cycle": cycle, "attempts_after_return": attempts, "failed_member_connects_so_far": failed_total, "seconds": round(now() - t0, 1)})
                return
        out.sample({"scenario": "round-robin balancer, members going away and returning in turn", "cycles": cycle + 1, "failed_requests_during_outages": failed_total})
    finally:
        A.kill()
        for B in Bs:
            B.kill()


async def halfclosed_after_outage(out, args, wd):
    """the origin goes away in the orderly way (FIN) while the client is passive: the proxy can only half-close towards the client
    at first, but the tunnel must not stay around for ever - with an idle period of 3 s it is gone (both sides closed, recorded)
    a few seconds later"""
    from .lib import http_connect
    writers = set()
    D = await TcpOrigin(reg_echo(writers), host="127.0.0.1").start()
    P = {k: free_port() for k in ("http", "api")}
    H = Proxy(args.bin, base_cfg([{"name": "http", "bind": "127.0.0.1:%d" % P["http"]}], [{"name": "direct"}], [{"target": "direct"}], metrics_port=P["api"], timeouts={"idle": 3, "udp": 3}), "HC", wd)
    c = None
    try:
        await H.start()
        out.case()
        c = await open_conn("127.0.0.1", P["http"])
        st, _ = await http_connect(c, "127.0.0.1", D.port)
        c.write(b"hold")
        await c.drain()
        await c.read_exact(4, timeout=5)
        src = c.local[1]
        t0 = now()
        for t in list(D.tasks):
            t.cancel()
        await D.stop()            # orderly close of every origin connection
        gone_at = None
        while now() - t0 < 3 + 1 + 4:
            await asyncio.sleep(0.5)
            live = await H.api_json("/live")
            if not any(int(h["source"].rsplit(":", 1)[1]) == src for h in live):
                gone_at = now() - t0
                break
        out.nontrivial(("direct", "orderly-origin-close", "passive-client", gone_at is not None))
        if gone_at is None:
            out.violation("tunnel whose origin went away is still open on the client side although the client stayed passive for longer than the idle period",
                          {"idle_period_s": 3, "waited_s": round(now() - t0, 1)})
        else:
            out.sample({"scenario": "origin closed in the orderly way, passive client, idle 3 s", "tunnel_gone_after_s": round(gone_at, 1)})
    finally:
        if c is not None:
            c.close()
        H.kill()
        try:
            await D.stop()
        except Exception:
            pass


async def died_mid_handshake(out, args, wd):
    """an upstream proxy (http, socks5) that dies while answering the proxy's handshake: it has written the first k bytes of its
    reply (every k, so also 'status line but no blank line yet') and then goes away with FIN or RST. The request in flight fails
    cleanly (the client is not told 'established', the record carries an error and ends); after the 'restart' (the same port answers
    completely again) the next request succeeds at once."""
    from .lib import http_connect
    mode = {"cut": None, "rst": False}
    writers = set()

    async def fake(kind, r, w):
        try:
            if kind == "h":
                await r.readuntil(b"\r\n\r\n")
                reply = b"HTTP/1.1 200 Connection established\r\nServer: fake\r\n\r\n"
            else:
                g = await r.readexactly(2)
                await r.readexactly(g[1])
                w.write(b"\x05\x00")
                await w.drain()
                h = await r.readexactly(4)
                alen = {1: 4, 4: 16}.get(h[3]) or (await r.readexactly(1))[0]
                await r.readexactly(alen + 2)
                reply = b"\x05\x00\x00\x01\x7f\x00\x00\x01\x12\x34"
            cut = mode["cut"]
            if cut is not None:
                w.write(reply[:min(cut, len(reply) - 1)])
                await w.drain()
                await asyncio.sleep(0.05)
                if mode["rst"]:
                    w.get_extra_info("socket").setsockopt(socket.SOL_SOCKET, socket.SO_LINGER, struct.pack("ii", 1, 0))
                w.close()
                return
            w.write(reply)
            await w.drain()
            while True:
                b = await r.read(65536)
                if not b:
                    break
                w.write(b)
                await w.drain()
            w.close()
        except Exception:
            try:
                w.close()
            except Exception:
                pass
    ups = {k: await asyncio.start_server(lambda r, w, k=k: fake(k, r, w), "127.0.0.1", 0) for k in ("h", "s")}
    uport = {k: v.sockets[0].getsockname()[1] for k, v in ups.items()}
    P = {k: free_port() for k in ("http", "api")}
    M = Proxy(args.bin, base_cfg([{"name": "http", "bind": "127.0.0.1:%d" % P["http"]}],
                                 [{"name": "h", "type": "http", "server": "127.0.0.1", "port": uport["h"]}, {"name": "s", "type": "socks", "server": "127.0.0.1", "port": uport["s"]}],
                                 [{"filter": "request.target.port == 1", "target": "h"}, {"target": "s"}], metrics_port=P["api"], history=10000), "MH", wd)
    try:
        await M.start()
        lens = {"h": len(b"HTTP/1.1 200 Connection established\r\nServer: fake\r\n\r\n"), "s": 10}
        for kind in ("h", "s"):
            cuts = list(range(lens[kind])) if (args.thorough or kind == "s") else sorted(set([0, 1, 8, 9, 12, 13, 35, 36, 37, 38, 39, 40, 49, 50, 51, 52, 53] + [args.seed % lens[kind]]))
            for cut in cuts:
                for rst in (False, True):
                    out.case()
                    mode["cut"], mode["rst"] = cut, rst
                    what = "%s upstream gone (%s) after %d of %d reply bytes" % ({"h": "http", "s": "socks5"}[kind], "RST" if rst else "FIN", cut, lens[kind])
                    c = await open_conn("127.0.0.1", P["http"])
                    src = c.local[1]
                    try:
                        st, _ = await http_connect(c, "127.0.0.1", 1 if kind == "h" else 2)
                    except Exception as e:
                        st = None
                    c.close()
                    if st == 200:
                        out.violation("client told 'established' although the upstream died during its handshake reply", {"fault": what})
                    await asyncio.sleep(0.05)
                    rec = None
                    for _ in range(40):
                        hist = await M.api_json("/history", timeout=20)
                        rec = next((h for h in hist if int(h["source"].rsplit(":", 1)[1]) == src), None)
                        if rec is not None:
                            break
                        await asyncio.sleep(0.1)
                    if rec is None:
                        out.violation("request that was in flight when the upstream died is not recorded as finished", {"fault": what})
                    elif not rec.get("error"):
                        out.violation("request that was in flight when the upstream died is recorded without an error", {"fault": what, "state": [x.get("state") for x in rec.get("state", [])] if isinstance(rec.get("state"), list) else rec.get("state")})
                    # "restart": the same port answers completely again - the very next request must work
                    mode["cut"] = None
                    c = await open_conn("127.0.0.1", P["http"])
                    try:
                        st2, _ = await http_connect(c, "127.0.0.1", 1 if kind == "h" else 2)
                        ok = False
                        if st2 == 200:
                            c.write(b"ping-after-restart")
                            await c.drain()
                            ok = (await c.read_exact(18, timeout=10)) == b"ping-after-restart"
                    except Exception:
                        ok = False
                    c.close()
                    if not ok:
                        out.violation("first request after the upstream came back fails (upstream died mid-handshake before)", {"fault": what})
                    out.nontrivial((kind, "died-mid-handshake", cut, rst))
        if not M.alive():
            out.violation("proxy process died", {"proxy": "MH"})
    finally:
        M.kill()
        for v in ups.values():
            v.close()


async def main(args):
    from . import lib as _lib
    _lib.UNIQUE_SRC = True   # records are joined with connections by source port
    out = Out("C19", "c19", "upstream kind {origin via direct, proxy via http, via socks5, via quic, load balancer over two, a non-redproxy QUIC server} x fault {SIGKILL+restart, SIGTERM+restart, SIGSTOP..SIGCONT, SIGSTOP+SIGKILL+restart, polite QUIC close (CONNECTION_CLOSE)+restart} x phase {idle, mid-transfer (tunnel open across the outage), during connect, requests arriving throughout an outage that outlasts every connect timeout, upstream absent when the first request arrives} x outage length, repeated outages, with a continuous healthy probe stream on another upstream. distinct = distinct (kind, fault, phase, outage length, verdict part)")
    rng = random.Random(args.seed)
    wd = workdir("c19")
    O = await TcpOrigin(echo_handler, host="127.0.0.1").start()
    combos = []
    if args.thorough:
        for kind in KINDS:
            for fault in FAULTS:
                for phase in ("idle", "mid-transfer", "during-connect"):
                    combos.append((kind, fault, phase, rng.choice([0.2, 2.0, 6.0]), 2 if phase == "idle" else 1))
    else:
        for kind in KINDS:
            combos.append((kind, "kill-restart", "mid-transfer", 0.5, 1))
            combos.append((kind, rng.choice(["term-restart", "stop-kill-restart"]), "idle", 1.0, 2))
            combos.append((kind, "stop-cont", rng.choice(["idle", "during-connect"]), 1.0, 1))
    combos.append(("direct", "reset-restart", "mid-transfer", 0.5, 1))
    combos.append(("q", "kill-restart", "requests-during-outage", 33.0, 1))
    combos.append(("qx", "kill-restart", "requests-during-outage", 70.0 if args.thorough else 33.0, 1))
    for kind in ("qx", "h", "direct"):
        combos.append((kind, "absent", "down-at-start", 0.0, 1))
    if args.thorough:
        for kind in ("h", "s5", "lb", "direct"):
            combos.append((kind, "kill-restart", "requests-during-outage", 8.0, 1))
    for fault in ("close-restart", "kill-restart"):
        for phase in (("idle", "mid-transfer", "during-connect") if args.thorough else ("idle", "mid-transfer")):
            combos.append(("qx", fault, phase, rng.choice([0.3, 1.0, 3.0]), 2 if phase == "idle" else 1))
    scen = [Scenario(i, *c) for i, c in enumerate(combos)]
    P = {"api": free_port(), "ok": free_port()}
    listeners = [{"name": "ok", "type": "reverse", "bind": "127.0.0.1:%d" % P["ok"], "target": "127.0.0.1:%d" % O.port}]
    connectors = [{"name": "direct"}]
    rules = []
    for s in scen:
        s.port = free_port()
        if s.kind == "direct":
            s.dport = free_port()
            listeners.append({"name": "r%d" % s.i, "type": "reverse", "bind": "127.0.0.1:%d" % s.port, "target": "127.0.0.1:%d" % s.dport})
            rules.append({"filter": "request.listener == \"r%d\"" % s.i, "target": "direct"})
            continue
        if s.kind == "qx":
            s.qport = free_port()
            s.Q = QuicUp(args.bin, s.qport, wd)
            listeners.append({"name": "r%d" % s.i, "type": "reverse", "bind": "127.0.0.1:%d" % s.port, "target": "127.0.0.1:%d" % O.port})
            connectors.append({"name": "qx%d" % s.i, "type": "quic", "server": "localhost", "port": s.qport, "tls": tls_client(), "bind": "127.0.0.1:0"})
            rules.append({"filter": "request.listener == \"r%d\"" % s.i, "target": "qx%d" % s.i})
            continue
        bp = {k: free_port() for k in ("http", "socks", "quic", "api")}
        s.bp = bp
        s.B = Proxy(args.bin, base_cfg([{"name": "http", "bind": "127.0.0.1:%d" % bp["http"]}, {"name": "socks", "bind": "127.0.0.1:%d" % bp["socks"]},
                                        {"name": "quic", "bind": "127.0.0.1:%d" % bp["quic"], "tls": tls_server()}],
                                       [{"name": "direct"}], [{"target": "direct"}], metrics_port=bp["api"]), "B%d" % s.i, wd)
        listeners.append({"name": "r%d" % s.i, "type": "reverse", "bind": "127.0.0.1:%d" % s.port, "target": "127.0.0.1:%d" % O.port})
        h = {"name": "h%d" % s.i, "type": "http", "server": "127.0.0.1", "port": bp["http"]}
        s5 = {"name": "s%d" % s.i, "type": "socks", "server": "127.0.0.1", "port": bp["socks"]}
        q = {"name": "q%d" % s.i, "type": "quic", "server": "localhost", "port": bp["quic"], "tls": tls_client(), "bind": "127.0.0.1:0"}
        if s.kind == "h":
            connectors.append(h)
            tgt = h["name"]
        elif s.kind == "s5":
            connectors.append(s5)
            tgt = s5["name"]
        elif s.kind == "q":
            connectors.append(q)
            tgt = q["name"]
        else:
            connectors += [h, s5, {"name": "lb%d" % s.i, "type": "loadbalance", "connectors": [h["name"], s5["name"]], "algo": "rr"}]
            tgt = "lb%d" % s.i
        rules.append({"filter": "request.listener == \"r%d\"" % s.i, "target": tgt})
    rules.append({"filter": "request.listener == \"ok\"", "target": "direct"})
    A = Proxy(args.bin, base_cfg(listeners, connectors, rules, metrics_port=P["api"], history=5000), "A", wd)
    healthy = []
    stop_healthy = asyncio.Event()

    async def healthy_stream():
        while not stop_healthy.is_set():
            r, lat = await probe(P["ok"], 5.0)
            healthy.append((now(), r, lat))
            await asyncio.sleep(0.1)

    async def start_upstream(s):
        if s.kind == "direct":
            s.D = await TcpOrigin(reg_echo(s.writers), host="127.0.0.1", port=s.dport).start()
        elif s.kind == "qx":
            try:
                await s.Q.start()
            except Exception:
                s.skip = True   # the helper lives in the in-process harness: not available in a binary built without the hooks
        else:
            await s.B.start()

    async def upstream_reachable(s, timeout=15.0):
        t0 = now()
        if s.kind == "qx":
            return s.Q.proc is not None and s.Q.proc.returncode is None   # start() returned after the helper bound its socket
        port = s.dport if s.kind == "direct" else s.bp["http"]
        while now() - t0 < timeout:
            try:
                c = await asyncio.wait_for(open_conn("127.0.0.1", port), 1.0)
                c.close()
                if s.kind != "direct":
                    await asyncio.sleep(0.25)  # listeners come up one after the other
                return True
            except Exception:
                await asyncio.sleep(0.05)
        return False

    async def inject(s):
        """apply the fault, keep it for s.outage seconds, then restore; returns True for a hard outage"""
        hard = s.fault != "stop-cont"
        if s.kind == "direct":
            # an origin cannot be SIGSTOPped here: emulate kill (abort connections, close listener) or a stall (stop reading)
            if s.fault == "reset-restart":
                # the origin host goes away hard: every connection is reset (RST), not closed
                import socket as _s, struct as _st
                for w in list(s.writers):
                    try:
                        w.get_extra_info("socket").setsockopt(_s.SOL_SOCKET, _s.SO_LINGER, _st.pack("ii", 1, 0))
                        w.transport.abort()
                    except Exception:
                        pass
            for t in list(s.D.tasks):
                t.cancel()
            await s.D.stop()
            await asyncio.sleep(s.outage)
            s.D = await TcpOrigin(reg_echo(s.writers), host="127.0.0.1", port=s.dport).start()
            return True
        if s.kind == "qx":
            if s.fault == "close-restart":
                await s.Q.polite_close()
            else:
                await s.Q.killed()
            await asyncio.sleep(s.outage)
            await s.Q.start()
            return True
        if s.fault == "kill-restart":
            s.B.signal(signal.SIGKILL)
            s.B.proc.wait()
        elif s.fault == "term-restart":
            s.B.signal(signal.SIGTERM)
            try:
                s.B.proc.wait(3)
            except Exception:
                s.B.kill()
        elif s.fault == "stop-cont":
            s.B.signal(signal.SIGSTOP)
        elif s.fault == "stop-kill-restart":
            s.B.signal(signal.SIGSTOP)
            await asyncio.sleep(s.outage / 2)
            s.B.signal(signal.SIGKILL)
            s.B.proc.wait()
        await asyncio.sleep(s.outage)
        if s.fault == "stop-cont":
            s.B.signal(signal.SIGCONT)
        else:
            await s.B.start()
        return hard

    async def run_scenario(s):
        if getattr(s, "skip", False):
            out.inconclusive += 1
            return
        out.case()
        r = "ok"
        if s.phase != "down-at-start":
            r, _ = await probe(s.port, 8.0)
        if r != "ok":
            # one retry: first use of a lazily connected upstream
            r, _ = await probe(s.port, 8.0)
        if r != "ok":
            out.violation("upstream unusable before any fault: %s" % s.kind, {"scenario": s.name, "probe": r, "A.stderr": A.stderr_tail(400)})
            return
        for rep in range(s.repeats):
            long_c = None
            src = None
            if s.phase == "mid-transfer":
                try:
                    long_c = await open_conn("127.0.0.1", s.port)
                    long_c.write(b"hold")
                    await long_c.drain()
                    await long_c.read_exact(4, timeout=5)
                    src = long_c.local[1]
                except Exception:
                    long_c = None
            pend = None
            if s.phase == "during-connect":
                # a request that is being established exactly when the fault hits
                async def delayed():
                    await asyncio.sleep(0.02)
                    return await probe(s.port, T_MAX[s.kind] + s.outage + 5)
                pend = asyncio.ensure_future(delayed())
            bg = None
            if s.phase == "requests-during-outage":
                # requests keep arriving while the upstream is away, for longer than any connect / handshake timeout: every one of
                # them fails (fine) - none of those failures may outlive the outage
                async def outage_probes():
                    pending = []
                    try:
                        while True:
                            pending.append(asyncio.ensure_future(probe(s.port, 45.0)))
                            await asyncio.sleep(3.0)
                    except asyncio.CancelledError:
                        for p in pending:
                            p.cancel()
                bg = asyncio.ensure_future(outage_probes())
            t_fault = now()
            if s.phase == "down-at-start":
                # the upstream has never been there: the very first request runs into whatever connect timeout the connector has
                # and fails; then the upstream appears
                r0, _ = await probe(s.port, 50.0)
                out.nontrivial((s.kind, "down-at-start", "first-request", r0))
                if r0 == "ok":
                    out.inconclusive += 1
                    return
                await start_upstream(s)
                hard = True
            else:
                hard = await inject(s)
            if bg is not None:
                bg.cancel()
            ok = await upstream_reachable(s)
            if not ok:
                out.inconclusive += 1
                return
            t_reach = now()
            # ---- bounded recovery
            attempts = 0
            recovered = None
            results = []
            while now() - t_reach < T_MAX[s.kind] + 6:
                attempts += 1
                r, lat = await probe(s.port, min(T_MAX[s.kind], 20.0))
                results.append((round(now() - t_reach, 2), r))
                if r == "ok":
                    recovered = now() - t_reach
                    break
                await asyncio.sleep(0.3)
            out.nontrivial((s.kind, s.fault, s.phase, s.outage, "recovery"))
            w = {"scenario": s.name, "repeat": rep, "attempts": attempts, "probe_results_after_upstream_was_reachable": results[:12]}
            if recovered is None:
                out.violation("no recovery after the upstream became reachable again: %s upstream (%s)" % (s.kind, "hard outage" if hard else "stall"), w)
                return
            if recovered > T_MAX[s.kind] or attempts > N_MAX + (2 if s.kind in ("q", "qx") else 0):
                out.violation("recovery slower than the bound after the upstream became reachable again: %s upstream" % s.kind, dict(w, recovered_after_s=round(recovered, 2), t_max=T_MAX[s.kind]))
            else:
                out.count("recoveries_within_bound")
                out.sample({"scenario": s.name, "recovered_after_s": round(recovered, 2), "attempts": attempts})
            if pend is not None:
                try:
                    r, lat = await asyncio.wait_for(pend, T_MAX[s.kind] + 10)
                    out.nontrivial((s.kind, s.fault, "during-connect", r))
                except asyncio.TimeoutError:
                    out.violation("request caught by the outage during connect never completes nor fails: %s upstream" % s.kind, {"scenario": s.name})
            # ---- tunnel that was open across a hard outage must have ended on the client side
            if long_c is not None and hard:
                out.case()
                closed_after = None
                try:
                    b = await asyncio.wait_for(long_c.r.read(1), max(0.1, CLOSE_MAX[s.kind] - (now() - t_fault)) + 1.0)
                    closed_after = now() - t_fault
                except asyncio.TimeoutError:
                    pass
                except (ConnectionError, OSError):
                    closed_after = now() - t_fault
                out.nontrivial((s.kind, s.fault, "open-tunnel"))
                if closed_after is None:
                    out.violation("tunnel open across a hard outage is still open on the client side: %s upstream" % s.kind, {"scenario": s.name, "waited_s": round(now() - t_fault, 1)})
                else:
                    await asyncio.sleep(1.6)
                    try:
                        hist = await A.api_json("/history")
                        rec = next((h for h in hist if int(h["source"].rsplit(":", 1)[1]) == src), None)
                        if rec is not None and rec["state"][-1]["state"] != "ErrorOccured" and s.kind != "direct":
                            out.violation("tunnel broken by an upstream outage is not recorded as an error", {"scenario": s.name, "states": [x["state"] for x in rec["state"]]})
                        if s.fault == "reset-restart":
                            # a reset is unambiguous (unlike a FIN, which may be a half-close): the proxy must have ended the tunnel
                            # on both sides by now and recorded the error, although the client never closed its side
                            out.case()
                            out.nontrivial((s.kind, s.fault, "reset-recorded"))
                            if rec is None:
                                live = await A.api_json("/live")
                                still = any(int(h["source"].rsplit(":", 1)[1]) == src for h in live)
                                out.violation("tunnel whose upstream connection was reset is not ended by the proxy (%s)" % ("still live" if still else "no record"),
                                              {"scenario": s.name, "seconds_after_the_reset": round(now() - t_fault, 1)})
                            elif rec["state"][-1]["state"] != "ErrorOccured":
                                out.violation("tunnel broken by an upstream reset is not recorded as an error", {"scenario": s.name, "states": [x["state"] for x in rec["state"]]})
                    except Exception:
                        pass
            if long_c is not None:
                long_c.close()

    try:
        for s in scen:
            if s.phase != "down-at-start":
                await start_upstream(s)
        await A.start()
        hs = asyncio.ensure_future(healthy_stream())
        await asyncio.sleep(0.3)
        await asyncio.gather(*([run_scenario(s) for s in scen] + [udp_outage(out, args, wd), shared_quic(out, args, wd, O.port), halfclosed_after_outage(out, args, wd), died_mid_handshake(out, args, wd), balancer_member_outages(out, args, wd, O.port)]))
        stop_healthy.set()
        await hs
        bad = [(round(t, 1), r, round(l, 2)) for (t, r, l) in healthy if r != "ok" or l > 2.0]
        out.case(len(healthy))
        out.nontrivial(("healthy-stream", len(healthy) > 0))
        if bad:
            out.violation("probes on an unrelated, healthy upstream fail or stall while other upstreams are down", {"bad_probes": bad[:8], "of": len(healthy)})
        out.setx("healthy_probes", len(healthy))
        out.setx("fault_scenarios", len(scen))
        if not A.alive():
            out.violation("proxy process died during upstream outages", {"rc": A.exit_status(), "stderr": A.stderr_tail(800)})
    finally:
        stop_healthy.set()
        A.kill()
        for s in scen:
            if s.B:
                s.B.kill()
            if s.D:
                await s.D.stop()
            if s.Q:
                s.Q.kill()
        await O.stop()
        import shutil
        shutil.rmtree(wd, ignore_errors=True)
    out.finish()


if __name__ == "__main__":
    run_main(main)
