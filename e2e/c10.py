"""C10 — UDP datagram fidelity and session isolation through every UDP path.
Every datagram embeds (client, session, destination, seq, len) + keystream.  Origins and clients log what they
receive; the checker matches by id: identical payload, right origin, right client socket, reply label = the
replying origin's address, multiplicity <= 1, nothing unmatched (e.g. an empty datagram born from a receive error).
Loss counts only in stop-and-wait mode (one datagram in flight per session)."""
import asyncio
import os
import random
import socket
import struct

from .lib import (MAGIC, Out, Proxy, addr_v5, base_cfg, free_port, http_connect_bytes, http_reply, keystream, now, open_conn, parse_addr_v5,
                  run_main, socks5_connect, tls_client, tls_server, workdir)

UDPC = ["direct", "h", "s5", "q", "qi"]


class LossyRelay(asyncio.DatagramProtocol):
    """UDP relay between A's quic connector and B's quic listener that drops a share of the large packets once the
    handshake is over: QUIC retransmits stream data but never DATAGRAM frames, so fragments of UDP frames get lost"""

    def __init__(self, server, rng):
        self.server, self.rng, self.client, self.n, self.dropped = server, rng, None, 0, 0

    def connection_made(self, tr):
        self.tr = tr

    def datagram_received(self, data, addr):
        if addr[1] == self.server[1]:
            if self.client:
                self.tr.sendto(data, self.client)
            return
        self.client = addr
        self.n += 1
        if self.n > 12 and len(data) > 900 and self.rng.random() < 0.25:
            self.dropped += 1
            return
        self.tr.sendto(data, self.server)
HDR = struct.Struct(">4sIIHII")  # magic client session dest seq len


def mk_payload(seed, client, session, dest, seq, size):
    size = max(size, HDR.size)
    body = keystream(seed, "%d/%d/%d" % (client, session, seq), "udp", size - HDR.size)
    return HDR.pack(MAGIC, client, session, dest, seq, size) + body


def parse_payload(b):
    if len(b) < HDR.size or b[:4] != MAGIC:
        return None
    _, client, session, dest, seq, size = HDR.unpack(b[:HDR.size])
    return client, session, dest, seq, size


class Origin(asyncio.DatagramProtocol):
    """echoes b'R' + datagram; records everything"""

    def __init__(self, oid):
        self.oid = oid
        self.got = []

    def connection_made(self, tr):
        self.tr = tr

    def datagram_received(self, data, addr):
        self.got.append((now(), addr, data))
        pp = parse_payload(data)
        if pp and pp[4] == 333:
            # delayed reply: lets a client disappear before its reply arrives (the reply then bounces)
            asyncio.get_running_loop().call_later(0.08, self.tr.sendto, b"R" + data, addr)
        else:
            self.tr.sendto(b"R" + data, addr)


async def mk_origin(oid, host="127.0.0.1", family=socket.AF_INET):
    loop = asyncio.get_running_loop()
    s = socket.socket(family, socket.SOCK_DGRAM)
    s.setsockopt(socket.SOL_SOCKET, socket.SO_RCVBUF, 16 << 20)
    s.setsockopt(socket.SOL_SOCKET, socket.SO_SNDBUF, 16 << 20)
    s.bind((host, 0))
    tr, pr = await loop.create_datagram_endpoint(lambda: Origin(oid), sock=s)
    pr.port = s.getsockname()[1]
    pr.host = host
    return pr


def build(args, wd, origins):
    P = {k: free_port() for k in ("B.http", "B.socks", "B.quic", "B.api", "A.http", "A.api", "relay", "A.socks-ql", "hfake")}
    tag = {ck: 2000 + i for i, ck in enumerate(UDPC)}
    a_l = [{"name": "http", "bind": "127.0.0.1:%d" % P["A.http"]}]
    rules = []
    for ck in UDPC:
        P["A.socks-" + ck] = free_port()
        P["A.rev-" + ck] = free_port()
        a_l.append({"name": "socks-" + ck, "type": "socks", "bind": "127.0.0.1:%d" % P["A.socks-" + ck]})
        a_l.append({"name": "rev-" + ck, "type": "reverse", "protocol": "udp", "bind": "127.0.0.1:%d" % P["A.rev-" + ck], "target": "127.0.0.1:%d" % origins[0].port})
        rules.append({"filter": "request.listener == \"socks-%s\" || request.listener == \"rev-%s\" || request.target.port == %d" % (ck, ck, tag[ck]), "target": ck})
    P["A.rev-hfake"] = free_port()
    a_l.append({"name": "rev-hfake", "type": "reverse", "protocol": "udp", "bind": "127.0.0.1:%d" % P["A.rev-hfake"], "target": "127.0.0.1:%d" % origins[0].port})
    rules.append({"filter": "request.listener == \"rev-hfake\"", "target": "hfake"})
    a_l.append({"name": "socks-ql", "type": "socks", "bind": "127.0.0.1:%d" % P["A.socks-ql"]})
    rules.append({"filter": "request.listener == \"socks-ql\"", "target": "ql"})
    a_c = [
        {"name": "ql", "type": "quic", "server": "localhost", "port": P["relay"], "tls": tls_client(), "bind": "127.0.0.1:0"},
        {"name": "direct"},
        {"name": "hfake", "type": "http", "server": "127.0.0.1", "port": P["hfake"]},
        {"name": "h", "type": "http", "server": "127.0.0.1", "port": P["B.http"]},
        {"name": "s5", "type": "socks", "server": "127.0.0.1", "port": P["B.socks"]},
        {"name": "q", "type": "quic", "server": "localhost", "port": P["B.quic"], "tls": tls_client(), "bind": "127.0.0.1:0"},
        {"name": "qi", "type": "quic", "server": "localhost", "port": P["B.quic"], "tls": tls_client(), "bind": "127.0.0.1:0", "inlineUdp": True},
    ]
    b_l = [{"name": "http", "bind": "127.0.0.1:%d" % P["B.http"]}, {"name": "socks", "bind": "127.0.0.1:%d" % P["B.socks"]},
           {"name": "quic", "bind": "127.0.0.1:%d" % P["B.quic"], "tls": tls_server()}]
    tmo = {"idle": 600, "udp": 600}
    A = Proxy(args.bin, base_cfg(a_l, a_c, rules, metrics_port=P["A.api"], timeouts=tmo), "A", wd)
    B = Proxy(args.bin, base_cfg(b_l, [{"name": "direct"}], [{"target": "direct"}], metrics_port=P["B.api"], timeouts=tmo), "B", wd)
    return A, B, P, tag


class Session:
    """one UDP association of one client through one (listener kind, connector)"""

    def __init__(self, lk, ck, client, session):
        self.lk, self.ck, self.client, self.session = lk, ck, client, session
        self.rx = []      # (t, label, data)
        self.sent = {}    # seq -> (dest origin, payload)
        self.sock = None
        self.ctl = None
        self.seq = 0
        self.rx_event = asyncio.Event()
        self.host = "127.0.0.1"   # where the proxy's listeners are ("::1" for the IPv6 sessions)

    async def open(self, P, tag, rebind_port=None, pipeline_first=None):
        loop = asyncio.get_running_loop()
        if self.lk == "socks":
            self.ctl = await open_conn(self.host, P["A.socks-" + self.ck])
            rep, bh, bp = await socks5_connect(self.ctl, "0.0.0.0", 0, cmd=3)
            if rep != 0:
                raise RuntimeError("udp associate refused rep=%s" % rep)
            self.relay = (self.host, bp)
        elif self.lk == "rev":
            self.relay = (self.host, P["A.rev-" + self.ck])
        elif self.lk == "http":
            self.ctl = await open_conn(self.host, P["A.http"])
            # (the upstream UDP socket takes the address family of the CONNECT target)
            wire = http_connect_bytes("::" if ":" in self.host else "0.0.0.0", tag[self.ck], [("Proxy-Protocol", "udp")])
            if pipeline_first:
                # the first frame travels in the same segment as the CONNECT request (the session id is not known yet: 0)
                seed, origin, size = pipeline_first
                self.seq += 1
                p = mk_payload(seed, self.client, self.session, origin.oid, self.seq, size)
                self.sent[self.seq] = (origin, p)
                attr = bytes([1, 6]) + socket.inet_pton(socket.AF_INET, "127.0.0.1") + struct.pack(">H", origin.port)
                wire += b"RPFM" + struct.pack(">IHH", 0, len(attr), len(p)) + attr + p
            self.ctl.write(wire)
            await self.ctl.drain()
            st, hdrs = await http_reply(self.ctl)
            if st != 200:
                raise RuntimeError("inline udp CONNECT refused %s" % st)
            self.sid = int(hdrs.get("session-id", "0"))
            self.reader = asyncio.ensure_future(self._read_frames())
            return
        s = socket.socket(socket.AF_INET6 if ":" in self.host else socket.AF_INET, socket.SOCK_DGRAM)
        if rebind_port:
            s.setsockopt(socket.SOL_SOCKET, socket.SO_REUSEADDR, 1)  # (never with port 0: the kernel could then hand out a port twice)
        s.setsockopt(socket.SOL_SOCKET, socket.SO_RCVBUF, 16 << 20)
        # a port of its own that no other session of this run ever gets (a kernel-chosen port could be one that another session
        # closed a moment ago, whose late replies would then reach the wrong owner - UDP semantics, not the proxy's doing)
        s.bind((self.host, rebind_port or free_port()))
        s.setblocking(False)
        self.sock = s
        self.port = s.getsockname()[1]
        self.reader = asyncio.ensure_future(self._read_udp())

    async def _read_udp(self):
        loop = asyncio.get_running_loop()
        try:
            while True:
                data, addr = await loop.sock_recvfrom(self.sock, 70000)
                label = None
                if self.lk == "socks":
                    try:
                        h, p, off = parse_addr_v5(data, 3)
                        label, data = (h, p), data[off:]
                    except Exception:
                        label = "unparsable"
                self.rx.append((now(), label, data))
                self.rx_event.set()
        except (asyncio.CancelledError, OSError):
            pass

    async def _read_frames(self):
        try:
            while True:
                head = await self.ctl.read_exact(12, timeout=600)
                if head[:4] != b"RPFM":
                    self.rx.append((now(), "bad-magic", head))
                    return
                sid, alen, blen = struct.unpack(">IHH", head[4:])
                attr = await self.ctl.read_exact(alen, timeout=30) if alen else b""
                body = await self.ctl.read_exact(blen, timeout=30) if blen else b""
                label = None
                if alen >= 2:
                    t, l = attr[0], attr[1]
                    v = attr[2:2 + l]
                    if t == 1 and l == 6:
                        label = (socket.inet_ntop(socket.AF_INET, v[:4]), struct.unpack(">H", v[4:6])[0])
                    elif t == 2 and l == 18:
                        label = (socket.inet_ntop(socket.AF_INET6, v[:16]), struct.unpack(">H", v[16:18])[0])
                    elif t == 3:
                        label = (v[:-2].decode("latin1"), struct.unpack(">H", v[-2:])[0])
                self.rx.append((now(), label, body))
                self.rx_event.set()
        except Exception:
            pass

    def send(self, seed, origin, size, dest_form="ipv4"):
        self.seq += 1
        p = mk_payload(seed, self.client, self.session, origin.oid, self.seq, size)
        self.sent[self.seq] = (origin, p)
        host = {"ipv4": "127.0.0.1", "domain": "localhost", "ipv6": "::1"}[dest_form] if origin.host != "::1" else "::1"
        if self.lk == "socks":
            self.sock.sendto(b"\0\0\0" + addr_v5(host, origin.port) + p, self.relay)
        elif self.lk == "rev":
            self.sock.sendto(p, self.relay)
        else:
            try:
                ip = socket.inet_pton(socket.AF_INET, host)
                attr = bytes([1, 6]) + ip + struct.pack(">H", origin.port)
            except OSError:
                try:
                    ip = socket.inet_pton(socket.AF_INET6, host)
                    attr = bytes([2, 18]) + ip + struct.pack(">H", origin.port)
                except OSError:
                    hb = host.encode()
                    attr = bytes([3, len(hb) + 2]) + hb + struct.pack(">H", origin.port)
            self.ctl.write(b"RPFM" + struct.pack(">IHH", self.sid, len(attr), len(p)) + attr + p)
        return self.seq, p

    async def wait_reply(self, seq, timeout=2.5, grace=10.0):
        """a reply that is merely late (loaded machine) is not a lost datagram: after `timeout` the wait goes on for
        `grace` more seconds before the caller may call it lost"""
        if getattr(self, "lost", 0) >= 2:
            # this association has already lost two datagrams for good: it is reported; do not spend the grace on every later one
            timeout, grace = min(timeout, 1.0), 0
        r = await self._wait_reply(seq, timeout)
        if r is None and grace:
            r = await self._wait_reply(seq, grace)
            if r is not None:
                self.late = getattr(self, "late", 0) + 1
        if r is None:
            self.lost = getattr(self, "lost", 0) + 1
        return r

    async def _wait_reply(self, seq, timeout):
        t0 = now()
        while now() - t0 < timeout:
            for (_, label, data) in self.rx:
                pp = parse_payload(data[1:]) if data[:1] == b"R" else None
                if pp and pp[3] == seq and pp[0] == self.client and pp[1] == self.session:
                    return label, data
            self.rx_event.clear()
            try:
                await asyncio.wait_for(self.rx_event.wait(), 0.25)
            except asyncio.TimeoutError:
                pass
        return None

    def close(self):
        # the socket is closed only after its reader task has ended (see rebind below: a descriptor number must not be reused
        # while the event loop still knows a reader for it)
        rd, sock = getattr(self, "reader", None), self.sock
        self.sock = None
        if rd is not None and not rd.done():
            rd.cancel()
            if sock is not None:
                rd.add_done_callback(lambda _f, s=sock: s.close())
        elif sock is not None:
            sock.close()
        if self.ctl:
            self.ctl.close()
            self.ctl = None


async def main(args):
    out = Out("C10", "c10", "paths {socks5 udp-associate, reverse udp, CONNECT+inline frames} x upstream {direct, http inline, socks5, quic datagrams, quic inline}; destinations IPv4/IPv6/domain; payload sizes {22..65000} plus the largest round trips over IPv4 (65506) and IPv6 (65526, listeners and origin on ::1) on the header-less paths; first and later datagrams of a session; stop-and-wait (loss judged) and pipelined bursts over 1..12 concurrent sessions (safety judged); client re-bind on the same source port; every datagram carries ids + keystream. distinct = distinct (listener, connector, size class, destination form, mode, first/later)")
    rng = random.Random(args.seed)
    wd = workdir("c10")
    origins = [await mk_origin(1), await mk_origin(2)]
    # IPv6 destinations need an IPv6 association (the upstream socket takes the family of the client's
    # source address / of the CONNECT target), which these IPv4 loopback clients do not create; the IPv6
    # sessions of the size-limit block below use listeners and an origin on ::1.
    A, B, P, tag = build(args, wd, origins)
    sessions = []

    async def fake_http_udp_upstream(r, w):
        """an upstream proxy for CONNECT + inline frames that sends a frame in ONE segment with its 200 reply, then echoes every
        frame it gets with the payload prefixed by 'echo:'"""
        try:
            await r.readuntil(b"\r\n\r\n")
            attr = bytes([1, 6]) + socket.inet_pton(socket.AF_INET, "127.0.0.1") + struct.pack(">H", origins[0].port)
            greet = b"G-from-upstream-" + bytes(40)
            w.write(b"HTTP/1.1 200 OK\r\nSession-Id: 7\r\n\r\n" + b"RPFM" + struct.pack(">IHH", 7, len(attr), len(greet)) + attr + greet)
            await w.drain()
            while True:
                head = await r.readexactly(12)
                sid, alen, blen = struct.unpack(">IHH", head[4:])
                a = await r.readexactly(alen) if alen else b""
                b = await r.readexactly(blen) if blen else b""
                b = b"echo:" + b
                w.write(b"RPFM" + struct.pack(">IHH", 7, len(a), len(b)) + a + b)
                await w.drain()
        except Exception:
            pass
        finally:
            w.close()
    hfake = await asyncio.start_server(fake_http_udp_upstream, "127.0.0.1", P["hfake"])
    try:
        await B.start()
        await A.start()
        await asyncio.sleep(0.3)
        client_id = args.seed * 1000
        sess_id = 0
        sizes = [22, 23, 1100, 1200, 1472, 4000, 20000, 65000]
        paths = [(lk, ck) for lk in ("socks", "rev", "http") for ck in UDPC]
        # ---------------- stop-and-wait
        async def saw(lk, ck, n, cid, sid):
            s = Session(lk, ck, cid, sid)
            sessions.append(s)
            who = "%s via %s" % (lk, ck)
            try:
                await s.open(P, tag)
            except Exception as e:
                out.violation("UDP association could not be established: %s" % who, {"error": repr(e)[:200], "A.stderr": A.stderr_tail(500)})
                return
            for i in range(n):
                out.case()
                size = sizes[(sid + i) % len(sizes)] if i else rng.choice([22, 1200, 4000])
                if lk == "rev":
                    o, form = origins[0], "ipv4"
                else:
                    o = origins[(sid + i) % len(origins)]
                    form = ["ipv4", "domain", "ipv4"][(sid + i) % 3] if o.host != "::1" else "ipv6"
                    if form == "domain" and o.host != "127.0.0.1":
                        form = "ipv4"
                seq, p = s.send(args.seed, o, size, form)
                r = await s.wait_reply(seq)
                first = "first" if i == 0 else "later"
                key = (lk, ck, "S" if size < 1300 else "M" if size < 5000 else "L", form, "stop-and-wait", first)
                if r is None:
                    arrived = any(d == p for (_, _, d) in o.got)
                    out.violation("datagram lost without network loss (%s datagram of a session): %s" % (first, who),
                                  {"size": size, "dest": form, "seq": seq, "reached_origin": arrived, "session": sid})
                    continue
                label, data = r
                if data[1:] != p:
                    out.violation("reply payload differs from the datagram sent: %s" % who, {"size": size, "got_len": len(data) - 1})
                if lk != "rev":
                    want = (o.host, o.port)
                    if label is None or label == "unparsable" or (label[0], label[1]) != want:
                        out.violation("reply is not labelled with the replying address: %s" % who, {"label": label, "origin": want, "dest_form": form})
                out.nontrivial(key)
                out.sample({"path": who, "size": size, "dest": form, "first": i == 0, "reply_label": label})
        jobs = []
        for lk, ck in paths:
            for _ in range(2 if args.thorough else 1):
                sess_id += 1
                jobs.append(saw(lk, ck, 10 if args.thorough else 6, client_id, sess_id))
        for i in range(0, len(jobs), 8):
            await asyncio.gather(*jobs[i:i + 8])
        # ---------------- size sweep around multiples of the QUIC datagram capacity (fragment count boundaries)
        async def sweep(lk, ck, cid, sid):
            s = Session(lk, ck, cid, sid)
            sessions.append(s)
            try:
                await s.open(P, tag)
            except Exception as e:
                return
            seq, _ = s.send(args.seed, origins[0], 100)
            await s.wait_reply(seq, 2.0)
            sizes2 = list(range(1120, 1150)) + list(range(2278, 2308)) + ([] if not args.thorough else list(range(3436, 3466)) + list(range(1100, 1200)))
            for size in sizes2:
                out.case()
                seq, p = s.send(args.seed, origins[0], size)
                r = await s.wait_reply(seq, 2.0)
                out.nontrivial((lk, ck, "sweep", size))
                if r is None:
                    out.violation("datagram lost without network loss (size at a fragment-count boundary): %s via %s" % (lk, ck), {"size": size, "reached_origin": any(d == p for (_, _, d) in origins[0].got)})
                elif r[1][1:] != p:
                    out.violation("reply payload differs from the datagram sent: %s via %s" % (lk, ck), {"size": size})
        jobs = []
        for lk, ck in (("socks", "q"), ("rev", "q"), ("http", "q"), ("socks", "direct")):
            sess_id += 1
            jobs.append(sweep(lk, ck, client_id + 30, sess_id))
        await asyncio.gather(*jobs)
        # ---------------- empty payloads: one empty datagram out, the association stays usable
        empties_before = sum(1 for (_, _, d) in origins[1].got if d == b"")
        sent_empty = 0
        for lk, ck, form in (("socks", "direct", "ipv4"), ("socks", "direct", "domain"), ("socks", "s5", "domain"), ("socks", "h", "domain"), ("socks", "q", "ipv4"), ("http", "direct", "domain")):
            out.case()
            sess_id += 1
            s = Session(lk, ck, client_id + 40, sess_id)
            sessions.append(s)
            try:
                await s.open(P, tag)
            except Exception:
                continue
            seq, _ = s.send(args.seed, origins[1], 100, form)
            await s.wait_reply(seq, 2.0)
            host = {"ipv4": "127.0.0.1", "domain": "localhost"}[form]
            if lk == "socks":
                s.sock.sendto(b"\0\0\0" + addr_v5(host, origins[1].port), s.relay)
            else:
                hb = host.encode()
                attr = (bytes([1, 6]) + socket.inet_pton(socket.AF_INET, host) if form == "ipv4" else bytes([3, len(hb) + 2]) + hb) + struct.pack(">H", origins[1].port)
                s.ctl.write(b"RPFM" + struct.pack(">IHH", s.sid, len(attr), 0) + attr)
            sent_empty += 1
            await asyncio.sleep(0.15)
            seq, p = s.send(args.seed, origins[1], 64, form)
            r = await s.wait_reply(seq, 2.0)
            out.nontrivial((lk, ck, "empty-payload", form))
            if r is None:
                out.violation("association unusable after an empty-payload datagram: %s via %s (%s destination)" % (lk, ck, form), {"reached_origin": any(d == p for (_, _, d) in origins[1].got)})
            # the echo of the empty datagram is a 1-byte 'R': not an error
            s.rx = [x for x in s.rx if x[2] != b"R"]
        await asyncio.sleep(0.3)
        got_empty = sum(1 for (_, _, d) in origins[1].got if d == b"") - empties_before
        if got_empty != sent_empty:
            out.violation("empty-payload datagrams are not delivered exactly once", {"sent": sent_empty, "delivered": got_empty})
        origins[1].got = [x for x in origins[1].got if x[2] != b""]
        # ---------------- the first frame pipelined behind the CONNECT request in one segment (listener side hand-off), and a frame
        # that an upstream proxy sends in one segment with its 200 reply (connector side hand-off)
        for ck in UDPC:
            out.case()
            sess_id += 1
            s = Session("http", ck, client_id + 80, sess_id)
            sessions.append(s)
            try:
                await s.open(P, tag, pipeline_first=(args.seed, origins[0], 200))
            except Exception as e:
                out.violation("UDP association could not be established: http via %s" % ck, {"error": repr(e)[:200], "pipelined_first_frame": True})
                continue
            out.nontrivial(("http", ck, "first-frame-pipelined"))
            if await s.wait_reply(1, 2.5) is None:
                p = s.sent[1][1]
                out.violation("datagram pipelined behind the CONNECT request is lost: http via %s" % ck, {"reached_origin": any(d == p for (_, _, d) in origins[0].got)})
            seq, _ = s.send(args.seed, origins[0], 100)
            if await s.wait_reply(seq, 2.5) is None:
                out.violation("datagram lost without network loss (later datagram of a session): http via %s" % ck, {"after_pipelined_first_frame": True})
        out.case()
        greet = b"G-from-upstream-" + bytes(40)
        u = socket.socket(socket.AF_INET, socket.SOCK_DGRAM)
        u.bind(("127.0.0.1", 0))
        u.setblocking(False)
        try:
            loop = asyncio.get_running_loop()
            await loop.sock_sendto(u, b"hello-1", ("127.0.0.1", P["A.rev-hfake"]))
            got = []
            t_end = now() + 3.0
            while now() < t_end and len(got) < 2:
                try:
                    d, _ = await asyncio.wait_for(loop.sock_recvfrom(u, 65536), 0.5)
                    got.append(d)
                except asyncio.TimeoutError:
                    pass
            out.nontrivial(("rev", "hfake", "frame-with-200"))
            if got.count(greet) != 1:
                out.violation("frame sent by the upstream proxy in one segment with its 200 reply is not delivered exactly once", {"received": [g[:24].hex() for g in got], "times": got.count(greet)})
            if b"echo:hello-1" not in got:
                out.violation("first datagram of a reverse-UDP session through an http upstream is lost", {"received": [g[:24].hex() for g in got]})
        finally:
            u.close()
        # ---------------- many sessions writing multi-fragment datagrams at the same instant over one QUIC connection (no loss on
        # this path): whatever the proxy shares between the sessions of a connection (fragment ids!) is hit from several threads
        storm = []
        for k in range(12):
            sess_id += 1
            s = Session(["socks", "rev"][k % 2], "q", client_id + 90 + k, sess_id)
            try:
                await s.open(P, tag)
                storm.append(s)
                sessions.append(s)
            except Exception:
                out.inconclusive += 1
        for s in storm:
            seq, _ = s.send(args.seed, origins[0], 100)
            await s.wait_reply(seq, 2.0)
        storm_lost = []
        # rounds: one datagram from every session back to back (so that their relay tasks wake up on different worker threads at the
        # same instant), at most two rounds in flight
        n_rounds = 1000 if args.thorough else 300
        # CPU contention on purpose: with every core busy the proxy's worker threads get preempted in the middle of whatever
        # they do, which stretches the windows of unsynchronised read-modify-write sequences from nanoseconds to milliseconds
        import subprocess
        import sys
        # (each burner ends by itself after 60 s, whatever happens to this process)
        burners = [subprocess.Popen([sys.executable, "-c", "import time\nt = time.time() + 60\nwhile time.time() < t: pass"]) for _ in range(os.cpu_count() or 4)]
        import atexit
        atexit.register(lambda: [b.kill() for b in burners if b.poll() is None])
        prev = []
        for rnd in range(n_rounds):
            cur = []
            for s in storm:
                out.case()
                cur.append((s, s.send(args.seed, origins[0], rng.choice([2400, 3000, 3400]))[0]))
            for (s, q) in prev:
                if await s.wait_reply(q, 2.5, grace=0) is None:
                    storm_lost.append((s.lk, s.session, q))
            prev = cur
        for b in burners:
            b.kill()
        for b in burners:
            b.wait()
        for (s, q) in prev:
            if await s.wait_reply(q, 2.5, grace=0) is None:
                storm_lost.append((s.lk, s.session, q))
        if storm_lost:
            # one common grace period for everything that is merely late
            await asyncio.sleep(5.0)
            still = [(lk, sid, q) for (lk, sid, q) in storm_lost if not any(parse_payload(d[1:]) and parse_payload(d[1:])[3] == q for s in storm if s.session == sid for (_, _, d) in s.rx if d[:1] == b"R")]
            if still:
                out.violation("datagram lost without network loss (many sessions sending multi-fragment datagrams at once): %s via q" % still[0][0], {"lost": len(still), "of": len(storm) * (1000 if args.thorough else 300)})
        out.nontrivial(("q", "concurrent-multi-fragment", len(storm)))
        # ---------------- small bursts: 24 x 64-byte datagrams back to back on one session at a time. The whole burst is a few
        # kilobytes, far below every socket buffer on the way, so no hop can lose any of it for lack of buffer space
        async def small_burst(lk, ck, cid, sid):
            s = Session(lk, ck, cid, sid)
            sessions.append(s)
            try:
                await s.open(P, tag)
            except Exception:
                return
            seq, _ = s.send(args.seed, origins[0], 100)
            await s.wait_reply(seq, 2.0)
            for rnd in range(2):
                out.case()
                seqs = [s.send(args.seed, origins[0], 64)[0] for _ in range(24)]
                # one deadline for the whole burst (late is not lost: a single 10 s grace period for all of them)
                missing = list(seqs)
                for budget in (2.5, 10.0):
                    t_end = now() + budget
                    while missing and now() < t_end:
                        missing = [q for q in missing if (await s.wait_reply(q, 0.05, grace=0)) is None]
                out.nontrivial((lk, ck, "small-burst", rnd))
                if missing:
                    reached = sum(1 for q in missing if any(d == s.sent[q][1] for (_, _, d) in origins[0].got))
                    out.violation("datagrams of a 24 x 64-byte burst lost without network loss: %s via %s" % (lk, ck), {"lost": len(missing), "of": 24, "lost_ones_that_reached_the_origin": reached})
        for lk, ck in paths:
            sess_id += 1
            await small_burst(lk, ck, client_id + 70, sess_id)
        # ---------------- many associations open at the same time (every one owns sockets with ports chosen by the kernel)
        many = []
        n_many = 900 if args.thorough else 300
        for k in range(n_many):
            sess_id += 1
            many.append(Session("socks", ["direct", "s5", "direct", "h"][k % 4], client_id + 100 + k, sess_id))

        async def open_many(s):
            try:
                await s.open(P, tag)
                sessions.append(s)
                return s
            except Exception as e:
                return None
        opened = []
        for i in range(0, len(many), 50):
            opened += [s for s in await asyncio.gather(*[open_many(s) for s in many[i:i + 50]]) if s]
        if len(opened) < n_many * 0.9:
            out.inconclusive += 1
        lost_many = []

        async def use_many(s, k):
            for i in range(2):
                out.case()
                seq, p = s.send(args.seed, origins[(k + i) % 2], 80)
                if await s.wait_reply(seq, 2.5) is None:
                    lost_many.append((s.ck, s.session, seq, any(d == p for (_, _, d) in origins[(k + i) % 2].got)))
        for i in range(0, len(opened), 100):
            await asyncio.gather(*[use_many(s, k) for k, s in enumerate(opened[i:i + 100])])
        out.setx("associations_open_at_once", len(opened))
        out.nontrivial(("socks", "many-associations", len(opened) >= 100))
        if lost_many:
            out.violation("datagram lost without network loss (many associations open at once): socks via %s" % lost_many[0][0],
                          {"lost": len(lost_many), "of": 2 * len(opened), "examples": lost_many[:5]})
        for s in opened:
            s.close()
        await asyncio.sleep(0.3)
        # ---------------- concurrent sessions with multi-fragment datagrams over a QUIC hop that loses packets:
        # loss is expected, but nothing may be delivered corrupted, mixed between sessions or to the wrong session
        relay_tr, relay = await asyncio.get_running_loop().create_datagram_endpoint(lambda: LossyRelay(("127.0.0.1", P["B.quic"]), rng), local_addr=("127.0.0.1", P["relay"]))
        group = []
        for k in range(4):
            sess_id += 1
            s = Session("socks", "ql", client_id + 60 + k, sess_id)
            try:
                await s.open(P, tag)
                group.append(s)
                sessions.append(s)
            except Exception as e:
                out.inconclusive += 1
        for s in group:
            seq, _ = s.send(args.seed, origins[0], 100)
            await s.wait_reply(seq, 2.0, grace=0)
        for rnd in range(40 if args.thorough else 16):
            for s in group:
                out.case()
                s.send(args.seed, origins[rng.randrange(2)], rng.choice([2400, 3000, 3400, 4000, 4500]))
            await asyncio.sleep(0.02)
        await asyncio.sleep(1.0)
        out.setx("lossy_quic_packets_dropped", relay.dropped)
        out.nontrivial(("socks", "ql", "lossy-concurrent", len(group), relay.dropped > 0))
        relay_tr.close()
        # ---------------- pipelined bursts over concurrent sessions (safety only)
        burst_sessions = []
        for lk, ck in [(lk, ck) for lk in ("socks", "http") for ck in UDPC] * (2 if args.thorough else 1):
            group = []
            for k in range(4):
                sess_id += 1
                s = Session(lk, ck, client_id + 1 + k, sess_id)
                try:
                    await s.open(P, tag)
                    group.append(s)
                    sessions.append(s)
                except Exception as e:
                    out.violation("UDP association could not be established: %s via %s" % (lk, ck), {"error": repr(e)[:200]})
            # warm up (first datagram creates the upstream session)
            for s in group:
                seq, _ = s.send(args.seed, origins[0], 100)
                await s.wait_reply(seq, 1.5)
            for rnd in range(6):
                for s in group:
                    out.case()
                    size = rng.choice([200, 1200, 3000, 4000, 9000])
                    s.send(args.seed, origins[rng.randrange(2)], size)
                await asyncio.sleep(0.01)
            burst_sessions += group
            await asyncio.sleep(0.3)
            for s in group:
                out.nontrivial((s.lk, s.ck, "burst", len(group)))
        await asyncio.sleep(1.0)
        # ---------------- a client disappears while one reply is in flight, then the same port sends again:
        # the bounced reply leaves an error on the session socket; it must not turn into a datagram
        async def rebind(ck, cid, sid):
            out.case()
            s = Session("rev", ck, cid, sid)
            sessions.append(s)
            await s.open(P, tag)
            for _ in range(2):
                seq, _ = s.send(args.seed, origins[0], 300)
                await s.wait_reply(seq, 1.0)
            port = s.sock.getsockname()[1]
            s.send(args.seed, origins[0], 333)  # reply comes 80 ms later
            await asyncio.sleep(0.01)
            # stop the reader task and WAIT for it before closing: otherwise the event loop may still have a reader registered for
            # this descriptor number when another session's new socket gets the same number, and the old task would read the
            # other session's datagrams
            s.reader.cancel()
            try:
                await s.reader
            except (asyncio.CancelledError, Exception):
                pass
            s.sock.close()
            s.sock = None
            await asyncio.sleep(0.5)
            s2 = Session("rev", ck, cid, sid)
            s2.seq = 100
            sessions.append(s2)
            await s2.open(P, tag, rebind_port=port)
            for _ in range(3):
                seq, _ = s2.send(args.seed, origins[0], 300)
                await s2.wait_reply(seq, 0.7)
            s2.sent.update(s.sent)
            out.nontrivial(("rev", ck, "rebind"))
        jobs = []
        for rep in range(6 if args.thorough else 2):
            for ck in UDPC:
                sess_id += 1
                jobs.append(rebind(ck, client_id + 50 + rep, sess_id))
        await asyncio.gather(*jobs)
        await asyncio.sleep(0.5)
        # ---------------- datagrams at the size limits: the largest UDP payload is 65507 bytes over IPv4 and 65527 over IPv6; the
        # echo adds one byte, so the largest round trip is 65506 / 65526. Paths without a per-datagram header on the client side
        # (reverse UDP, CONNECT + inline frames) can carry them; an IPv6 origin on ::1 and listeners on ::1
        origin6 = await mk_origin(3, "::1", socket.AF_INET6)
        origins.append(origin6)
        PV = {k: free_port() for k in ("http6", "rev6", "http4", "rev4", "api")}
        V = Proxy(args.bin, base_cfg([{"name": "http6", "type": "http", "bind": "[::1]:%d" % PV["http6"]}, {"name": "http4", "type": "http", "bind": "127.0.0.1:%d" % PV["http4"]},
                                      {"name": "rev6", "type": "reverse", "protocol": "udp", "bind": "[::1]:%d" % PV["rev6"], "target": "[::1]:%d" % origin6.port},
                                      {"name": "rev4", "type": "reverse", "protocol": "udp", "bind": "127.0.0.1:%d" % PV["rev4"], "target": "127.0.0.1:%d" % origins[0].port}],
                                     [{"name": "direct"}], [{"target": "direct"}], metrics_port=PV["api"], timeouts={"idle": 600, "udp": 600}), "V", wd)
        try:
            await V.start()
            await asyncio.sleep(0.3)

            async def limits(lk, fam, cid, sid):
                s = Session(lk, "direct", cid, sid)
                s.host = "::1" if fam == 6 else "127.0.0.1"
                o = origin6 if fam == 6 else origins[0]
                sessions.append(s)
                who = "%s via direct (IPv%d listener, IPv%d origin)" % (lk, fam, fam)
                try:
                    await s.open({"A.http": PV["http%d" % fam], "A.rev-direct": PV["rev%d" % fam]}, {"direct": 2000})
                except Exception as e:
                    out.violation("UDP association could not be established: %s" % who, {"error": repr(e)[:200], "V.stderr": V.stderr_tail(500)})
                    return
                top = 65526 if fam == 6 else 65506
                for size in [1200, 65000, 65505, top - 19, top - 6, top - 1, top, 30000]:
                    out.case()
                    seq, p = s.send(args.seed, o, size, "ipv6" if fam == 6 else "ipv4")
                    r = await s.wait_reply(seq, 3.0)
                    out.nontrivial((lk, "direct", "limit", fam, size))
                    if r is None:
                        arrived = [len(d) for (_, _, d) in o.got if d[:64] == p[:64]]
                        out.violation("datagram lost without network loss (payload near the largest UDP datagram): %s" % who, {"size": size, "origin_got_lengths": arrived})
                    elif r[1][1:] != p:
                        out.violation("reply payload differs from the datagram sent: %s" % who, {"size": size, "got_len": len(r[1]) - 1})
            jobs = []
            for lk in ("rev", "http"):
                for fam in (6, 4):
                    sess_id += 1
                    jobs.append(limits(lk, fam, client_id + 97, sess_id))
            await asyncio.gather(*jobs)
        finally:
            V.kill()
        # ---------------- a reverse-UDP client whose session expired sends again (listener bound to 127.0.0.1 and dual-stack [::]):
        # the new datagrams belong to a new session and must be served like the first ones
        PE = {k: free_port() for k in ("rev6", "rev4", "api")}
        E = Proxy(args.bin, base_cfg([{"name": "rev6", "type": "reverse", "protocol": "udp", "bind": "[::]:%d" % PE["rev6"], "target": "127.0.0.1:%d" % origins[0].port},
                                      {"name": "rev4", "type": "reverse", "protocol": "udp", "bind": "127.0.0.1:%d" % PE["rev4"], "target": "127.0.0.1:%d" % origins[0].port}],
                                     [{"name": "direct"}], [{"target": "direct"}], metrics_port=PE["api"], timeouts={"idle": 600, "udp": 2}), "E", wd)
        try:
            await E.start()
            await asyncio.sleep(0.3)
            exp_sessions = []
            for lname in ("rev6", "rev4"):
                sess_id += 1
                s = Session("rev", "direct", client_id + 95, sess_id)
                await s.open({"A.rev-direct": PE[lname]}, tag)
                sessions.append(s)
                exp_sessions.append((lname, s))

            async def expiry_one(lname, s):
                for phase in ("first session", "after the session expired"):
                    for i in range(3 if phase != "first session" else 2):
                        out.case()
                        seq, p = s.send(args.seed, origins[0], 120)
                        if await s.wait_reply(seq, 2.5) is None:
                            out.violation("datagram lost without network loss (%s, reverse UDP listener bound to %s): rev via direct" % (phase, "[::]" if lname == "rev6" else "127.0.0.1"),
                                          {"datagram_of_phase": i, "reached_origin": any(d == p for (_, _, d) in origins[0].got)})
                            break
                    if phase == "first session":
                        await asyncio.sleep(4.6)   # udp idle timer 2 s + 1 s tick + collector
                out.nontrivial(("rev", lname, "session-expiry-then-again"))
            await asyncio.gather(*[expiry_one(l, s) for (l, s) in exp_sessions])
        finally:
            E.kill()
        # ---------------- global safety check over everything origins and clients received
        sent_index = {}
        for s in sessions:
            for seq, (o, p) in s.sent.items():
                sent_index[(s.client, s.session, seq)] = (s, o, p)
        for o in origins:
            seen = {}
            for (t, addr, data) in o.got:
                out.case()
                pp = parse_payload(data)
                if pp is None:
                    out.violation("origin received a datagram nobody sent (%s)" % ("empty datagram" if len(data) == 0 else "unknown content"), {"len": len(data), "head": data[:24].hex(), "origin": o.oid})
                    continue
                k = (pp[0], pp[1], pp[3])
                ent = sent_index.get(k)
                if ent is None:
                    out.violation("origin received a datagram with ids nobody sent", {"ids": k})
                    continue
                s, want_o, p = ent
                if data != p:
                    out.violation("datagram delivered with a payload different from the one sent: %s via %s" % (s.lk, s.ck), {"ids": k, "sent_len": len(p), "got_len": len(data), "first_diff": next((i for i in range(min(len(p), len(data))) if p[i] != data[i]), None)})
                if want_o is not o:
                    out.violation("datagram delivered to another destination than addressed: %s via %s" % (s.lk, s.ck), {"ids": k, "addressed": want_o.oid, "delivered_to": o.oid})
                seen[k] = seen.get(k, 0) + 1
            dups = {k: n for k, n in seen.items() if n > 1}
            if dups:
                k = next(iter(dups))
                s = sent_index[k][0]
                out.violation("datagram delivered more than once: %s via %s" % (s.lk, s.ck), {"ids": k, "times": dups[k], "count": len(dups)})
        for s in sessions:
            seen = {}
            for (t, label, data) in s.rx:
                out.case()
                pp = parse_payload(data[1:]) if data[:1] == b"R" else None
                if pp is None:
                    out.violation("client received a datagram that is no reply to anything it sent: %s via %s" % (s.lk, s.ck), {"len": len(data), "head": data[:24].hex()})
                    continue
                if (pp[0], pp[1]) != (s.client, s.session):
                    owner_s = [x for x in sessions if (x.client, x.session) == (pp[0], pp[1])]
                    out.violation("reply delivered to another session than the one that owns it: %s via %s" % (s.lk, s.ck),
                                  {"owner": (pp[0], pp[1]), "delivered_to": (s.client, s.session), "seq": pp[3], "size": pp[4], "at": round(t, 3),
                                   "owner_path": [(x.lk, x.ck, getattr(x, "port", None)) for x in owner_s], "delivered_to_port": getattr(s, "port", None)})
                    continue
                ent = s.sent.get(pp[3])
                if ent is None or data[1:] != ent[1]:
                    out.violation("reply payload differs from what was sent: %s via %s" % (s.lk, s.ck), {"seq": pp[3]})
                seen[pp[3]] = seen.get(pp[3], 0) + 1
            if any(n > 1 for n in seen.values()):
                out.violation("reply delivered more than once: %s via %s" % (s.lk, s.ck), {"times": max(seen.values())})
        out.setx("datagrams_at_origins", sum(len(o.got) for o in origins))
        out.setx("datagrams_at_clients", sum(len(s.rx) for s in sessions))
        out.setx("sessions", len(sessions))
        out.setx("late_replies", sum(getattr(s, "late", 0) for s in sessions))
        for p in (A, B):
            if not p.alive():
                out.violation("proxy process died", {"proxy": p.name, "rc": p.exit_status(), "stderr": p.stderr_tail(800)})
    finally:
        for s in sessions:
            s.close()
        A.cleanup()
        B.cleanup()
        hfake.close()
    out.finish()


if __name__ == "__main__":
    run_main(main)
