"""C18 — bad configuration is an error, never a crash; accepted configuration runs.
Structural mutation of valid configuration documents, each judged by the shipped binary itself:
  `redproxy-rs -c <mutant> -t 1`  must exit 0 (accepted) or 1 (rejected with a message); death by signal = violation.
Accepted mutants are then started (fresh ports) and given one well-formed request per listener: the process must stay
alive, answer or close within 5 s and not spin.  Any JSON posted to /api/rules must get an HTTP response and leave
the process alive."""
import asyncio
import copy
import json
import os
import random
import signal

from .lib import (Out, Proxy, TcpOrigin, addr_v5, base_cfg, echo_handler, free_port, fx, http_call, http_connect_bytes, now, open_conn, run_main,
                  tls_client, tls_server, workdir)


def seed_configs(oport):
    """valid documents: an equivalent of the shipped config.yaml (fixture certificates, no tproxy) and the harness chain config"""
    shipped = {
        "apiVersion": "v1alpha", "kind": "ProxyDefinition",
        "ioParams": {"bufferSize": 65536, "useSplice": True},
        "metrics": {"bind": "127.0.0.1:1", "ui": None},
        "timeouts": {"idle": 10, "udp": 10},
        "listeners": [
            {"name": "udp-reverse", "type": "reverse", "bind": "127.0.0.1:2", "target": "localhost:53", "protocol": "udp"},
            {"name": "http", "bind": "127.0.0.1:3"},
            {"name": "https", "type": "http", "bind": "127.0.0.1:4", "tls": {"cert": fx("server.crt"), "key": fx("server.key"), "client": {"ca": fx("ca.crt"), "required": True}}},
            {"name": "socks", "bind": "127.0.0.1:5", "allowUdp": True, "enforceUdpClient": False,
             "auth": {"required": True, "users": [{"username": "a", "password": "a"}], "cmd": ["test", "#USER#", "==", "#PASS#"], "cache": {"timeout": 10}}},
            {"name": "quic", "bind": "127.0.0.1:6", "tls": {"cert": fx("server.crt"), "key": fx("server.key")}},
        ],
        "connectors": [
            {"name": "loadbalance", "connectors": ["direct", "http"], "algo": {"hashBy": "request.source"}},
            {"name": "direct", "dns": {"servers": "system", "family": "V4Only"}},
            {"name": "http", "server": "127.0.0.1", "port": 7081},
            {"name": "https", "type": "http", "server": "127.0.0.1", "port": 3333, "tls": {"insecure": True, "ca": fx("ca.crt"), "auth": {"cert": fx("client.crt"), "key": fx("client.key")}}},
            {"name": "socks", "server": "127.0.0.1", "port": 1080},
            {"name": "socks-tls", "type": "socks", "server": "127.0.0.1", "port": 9123, "auth": {"username": "proxy", "password": "pw"}, "tls": {"insecure": True}},
            {"name": "quic", "server": "127.0.0.1", "port": 7081, "tls": {"insecure": True}, "bind": "127.0.0.1:0"},
        ],
        "rules": [
            {"filter": "request.feature == \"UdpForward\"", "target": "quic"},
            {"filter": "request.source.host == \"127.0.0.1\"", "target": "direct"},
            {"filter": "request.source =~ \"127.0.0.1\" and request.target =~ \"google.com\"", "target": "direct"},
            {"filter": "request.target.type == \"ipv6\"", "target": "https"},
            {"filter": "request.target =~ \"deny-me.com\"", "target": "deny"},
            {"target": "direct"},
        ],
        "accessLog": {"path": "access.log", "format": "json"},
    }
    small = {
        "apiVersion": "v1alpha", "kind": "ProxyDefinition",
        "listeners": [{"name": "http", "bind": "127.0.0.1:3"}, {"name": "socks", "bind": "127.0.0.1:5"},
                      {"name": "rev", "type": "reverse", "bind": "127.0.0.1:7", "target": "127.0.0.1:%d" % oport}],
        "connectors": [{"name": "direct"}, {"name": "lb", "type": "loadbalance", "connectors": ["direct"], "algo": "rr"}],
        "rules": [{"filter": "request.target.port >= 1", "target": "lb"}, {"target": "direct"}],
        "metrics": {"bind": "127.0.0.1:1", "ui": None, "historySize": 10, "apiPrefix": "/api", "cors": "*"},
        "accessLog": {"path": "access.log", "format": {"script": "`${request.listener} ${request.source} ${request.target} ${request.feature}`"}},
    }
    # the transparent-proxy listeners of the shipped file (they load without privileges; whether they can be started depends on them)
    tproxy = {
        "apiVersion": "v1alpha", "kind": "ProxyDefinition",
        "listeners": [{"name": "tproxy", "type": "tproxy", "bind": "127.0.0.1:8"},
                      {"name": "tproxy-udp", "type": "tproxy", "bind": "127.0.0.1:9", "protocol": "udp", "udpFullCone": False, "maxUdpSocket": 128},
                      {"name": "http", "bind": "127.0.0.1:3"}],
        "connectors": [{"name": "direct"}],
        "rules": [{"target": "direct"}],
    }
    return [("shipped", shipped), ("small", small), ("tproxy", tproxy)]


def paths(node, prefix=()):
    out = [prefix] if prefix else []
    if isinstance(node, dict):
        for k, v in node.items():
            out += paths(v, prefix + (k,))
    elif isinstance(node, list):
        for i, v in enumerate(node):
            out += paths(v, prefix + (i,))
    return out


def get(node, path):
    for p in path:
        node = node[p]
    return node


def set_(doc, path, value, delete=False):
    node = doc
    for p in path[:-1]:
        node = node[p]
    if delete:
        del node[path[-1]]
    else:
        node[path[-1]] = value


RETYPES = [None, "str", "", 0, -1, 65536, 18446744073709551615, 9223372036854775807, 18446744073709551616, 1.5, True, [], ["x"], {}, {"x": 1}, "x" * 70000, "\u0000", "127.0.0.1:99999", "not-an-address"]


def structural_mutants(rng, name, doc, limit):
    ps = paths(doc)
    out = []
    for path in ps:
        d = copy.deepcopy(doc)
        set_(d, path, None, delete=True)
        out.append(("%s: delete %s" % (name, "/".join(map(str, path))), d, "delete"))
        for v in RETYPES:
            d = copy.deepcopy(doc)
            set_(d, path, v)
            out.append(("%s: %s := %s" % (name, "/".join(map(str, path)), json.dumps(v)[:30]), d, "retype"))
        if isinstance(path[-1], int):
            d = copy.deepcopy(doc)
            parent = get(d, path[:-1])
            parent.append(copy.deepcopy(parent[path[-1]]))
            out.append(("%s: duplicate %s" % (name, "/".join(map(str, path))), d, "duplicate"))
    # the small top-level sections that are only used when the proxy really runs are always mutated completely; the rest is sampled
    always = [m for m in out if name == "tproxy" or any((": %s/" % sec) in m[0] or (": delete %s" % sec) in m[0] for sec in ("metrics", "accessLog", "timeouts", "ioParams"))]
    rest = [m for m in out if m not in always]
    rng.shuffle(rest)
    return always + rest[:limit]


def targeted_mutants(doc_small, doc_shipped):
    out = []

    def m(desc, base, fn, cls):
        d = copy.deepcopy(base)
        fn(d)
        out.append((desc, d, cls))
    for section in ("listeners", "connectors"):
        for field in ("name", "type"):
            for v in ("unknown-type", "deny", 5, ["http"], {"a": 1}, None, True, ""):
                m("%s[0].%s := %s" % (section, field, json.dumps(v)), doc_small, lambda d, s=section, f=field, v=v: d[s][0].__setitem__(f, v), "type-name")
    m("duplicate listener name", doc_small, lambda d: d["listeners"].append(dict(d["listeners"][0])), "duplicate-name")
    m("duplicate connector name", doc_small, lambda d: d["connectors"].append(dict(d["connectors"][0])), "duplicate-name")
    # balancer graphs
    graphs = {
        "empty": [("lb", [])], "missing member": [("lb", ["nope"])], "self": [("lb", ["lb"])],
        "2-cycle": [("lb", ["lb2"]), ("lb2", ["lb"])], "3-cycle": [("lb", ["lb2"]), ("lb2", ["lb3"]), ("lb3", ["lb"])],
        "diamond": [("lb", ["lb2", "lb3"]), ("lb2", ["direct"]), ("lb3", ["direct"])],
        "self plus direct": [("lb", ["lb", "direct"])],
        # a cycle that the entry balancer only leads into, in every declaration order
        "lead-in then 2-cycle": [("lb", ["in-a"]), ("in-a", ["in-b"]), ("in-b", ["in-a"])],
        "2-cycle then lead-in": [("in-a", ["in-b"]), ("in-b", ["in-a"]), ("lb", ["in-a"])],
        "cycle member, lead-in, cycle member": [("in-a", ["in-b"]), ("lb", ["in-a"]), ("in-b", ["in-a"])],
        "lead-in then self": [("lb", ["in-s", "direct"]), ("in-s", ["in-s"])],
        "self then lead-in": [("in-s", ["in-s"]), ("lb", ["in-s"])],
        "two lead-ins into a 3-cycle": [("lb", ["l2"]), ("l2", ["c1"]), ("c1", ["c2"]), ("c2", ["c3"]), ("c3", ["c1"])],
        "chain of eight": [("lb", ["lb2"])] + [("lb%d" % i, ["lb%d" % (i + 1)]) for i in range(2, 8)] + [("lb8", ["direct"])],
    }
    for gname, g in graphs.items():
        def fn(d, g=g):
            d["connectors"] = [{"name": "direct"}] + [{"name": n, "type": "loadbalance", "connectors": mem, "algo": "rr"} for n, mem in g]
        m("balancer graph: " + gname, doc_small, fn, "balancer-graph")
    # rules
    bad_rules = {
        "syntax error": "request.listener == ", "type error": "request.target.port + 1", "wrong arity": "to_string() == \"a\"", "tuple index": "(1,2).5 == 1", "tuple index = size": "(1,2).2 == 1", "tuple index = size (3)": "(1,\"a\",true).3 == 1", "tuple index size+1": "(1,2).3 == 1",
        "tuple index negative": "(1,2).-1 == 1", "tuple index last (valid)": "(1,2).1 == 2", "index = array size": "[1,2][2] == 1",
        "mixed comparison": "1 == \"a\"", "unknown function": "nosuch(1)", "unknown field": "request.nosuch == 1", "division by zero": "1 / 0 == 1",
        "index out of range": "split(request.target.host, \".\")[9] == \"x\"", "invalid regex": "request.target.host =~ \"(\"", "array compare": "[1] == [1]",
    }
    # let bindings: self / mutual references must be rejected (not recursed into), shadowing must evaluate in the outer scope
    bad_rules.update({
        "let self reference": "let a = a in a == 1", "let self reference through a function": "let a = to_string(a) in a == \"1\"",
        "let mutual reference": "let a = b; b = a in a == 1", "let forward reference": "let a = b; b = 1 in a == 1",
        "let cycle through an inner let": "let a = 1; b = a in let a = b in a == 1",
        "let shadowing that uses the outer binding": "let p = request.target.port in let p = p + 1 in p > 1",
        "let shadowing twice": "let p = 1 in let p = p + 1 in let p = p * 2 in p == 4",
        "let inside function argument": "to_string(let a = request.target.port in a + 1) == \"81\"",
    })
    # the parser matches the word operators without regard to case; whatever it accepts must then also be built
    bad_rules.update({
        "upper-case AND": "1 == 1 AND true", "mixed-case Or": "false Or request.target.port > 0", "upper-case XOR": "true XOR false",
        "mixed-case aNd inside a group": "(request.target.port > 0 aNd true) oR false", "upper-case words chained": "true AND true OR false XOR true",
        "upper-case hex prefix": "0XFF == 255", "upper-case binary prefix": "0B11 == 3", "upper-case octal prefix": "0O17 == 15",
        "upper-case IF": "IF true THEN true ELSE false", "upper-case LET": "LET a = 1 IN a == 1", "upper-case TRUE": "TRUE",
    })
    # syntax and type errors around non-ASCII text, nested so that the error trace gets long; shifted byte by byte so that any
    # fixed-size cut of a message falls inside a multi-byte character for one of them
    for pad in range(4):
        x = "x" * pad
        bad_rules["syntax error nested behind non-ASCII text (shift %d)" % pad] = '(request.target.host =~ "%s测试.中国.пример.испытание" && ((((1 +)))))' % x
        bad_rules["type error nested behind non-ASCII text (shift %d)" % pad] = '(request.target.host == "%sбольшой-и-длинный-хост.рф" && ((((request.target.port + "%s测试")))))' % (x, "é" * 300)
        bad_rules["non-ASCII comment before a syntax error (shift %d)" % pad] = '/* %sкомментарий 注释 %s */ (request.listener == )' % (x, "ü" * 400)
        # almost all of the quoted line is multi-byte text, so a cut anywhere in the message is likely to hit it
        bad_rules["syntax error behind a long CJK literal (shift %d)" % pad] = '(request.target.host =~ "%s%s" && (1 +))' % (x, "测试中国" * 60)
        bad_rules["syntax error behind a long Cyrillic literal (shift %d)" % pad] = '((request.target.host == "%s%s") || ((2 *)))' % (x, "пример" * 70)
        bad_rules["valid filter with non-ASCII literals (shift %d)" % pad] = 'request.target.host == "%s测试.中国" || request.target.host =~ "пример$"' % x
    # a family around one shape: the error message quotes the offending line once per grammar level, so its length and the
    # position of every multi-byte character in it move with the literal's length and with the nesting depth
    for n in range(12):
        for depth in (1, 2, 3):
            bad_rules["syntax error after a non-ASCII literal (literal +%d bytes, depth %d)" % (n, depth)] = '(request.target.host =~ "%s测试.中国" && %s1 +%s)' % ("a" * n, "(" * depth, ")" * depth)
    for rname, f in bad_rules.items():
        m("rule filter: " + rname, doc_small, lambda d, f=f: d["rules"].insert(0, {"filter": f, "target": "direct"}), "rule")
    for depth in (10, 100, 1000, 10000, 100000):
        for kind, f in (("parens", "(" * depth + "true" + ")" * depth), ("not", "!" * depth + "true"), ("arrays", "[" * depth + "]" * depth + " == []"),
                        ("plus", " + ".join(["1"] * depth) + " == 1"), ("tuples", "(" * depth + "1" + ",)" * depth + " == 1")):
            if kind == "tuples" and depth > 1000:
                continue
            m("rule nesting %s depth %d" % (kind, depth), doc_small, lambda d, f=f: d["rules"].insert(0, {"filter": f, "target": "direct"}), "rule-depth")
    m("rule with unknown target", doc_small, lambda d: d["rules"].insert(0, {"target": "nope"}), "rule")
    # access log formats
    for fname, fmt in {"bad script": {"script": "request.listener +"}, "non-string script": {"script": "1 + 1"}, "script failing at load": {"script": "split(request.target.host, \".\")[9]"},
                       "script failing only at request time": {"script": "split(request.target.host, \"n\")[1]"},
                       "script dividing by zero at request time": {"script": "to_string(1 / (request.target.port - request.target.port))"},
                       "unknown format": "xml", "format as int": 5}.items():
        m("access log format: " + fname, doc_small, lambda d, fmt=fmt: d["accessLog"].__setitem__("format", fmt), "access-log")
    m("access log in a missing directory", doc_small, lambda d: d["accessLog"].__setitem__("path", "/nonexistent-dir/x.log"), "access-log")
    # TLS material
    for tname, (cert, key) in {"missing files": ("/nonexistent.crt", "/nonexistent.key"), "empty files": (fx("empty.pem"), fx("empty.pem")), "garbage": (fx("garbage.pem"), fx("garbage.pem")),
                               "key without PEM block": (fx("server.crt"), fx("garbage.pem")), "cert as key": (fx("server.crt"), fx("server.crt")), "key as cert": (fx("server.key"), fx("server.key"))}.items():
        for li in (2, 4):
            m("TLS material (%s) on listener %s" % (tname, doc_shipped["listeners"][li]["name"]), doc_shipped, lambda d, li=li, cert=cert, key=key: d["listeners"][li]["tls"].update({"cert": cert, "key": key}), "tls")
        m("TLS client auth material (%s) on connector https" % tname, doc_shipped, lambda d, cert=cert, key=key: d["connectors"][3]["tls"]["auth"].update({"cert": cert, "key": key}), "tls")
        m("TLS CA (%s) on connector https" % tname, doc_shipped, lambda d, cert=cert: d["connectors"][3]["tls"].__setitem__("ca", cert), "tls")
    m("tproxy udp listener with maxUdpSocket 0", doc_small, lambda d: d["listeners"].append({"name": "t", "type": "tproxy", "bind": "127.0.0.1:9", "protocol": "udp", "udpFullCone": True, "udpMaxSocket": 0}), "tproxy")
    m("socks connector version 6", doc_small, lambda d: d["connectors"].append({"name": "s6", "type": "socks", "server": "x", "port": 1, "version": 6}), "connector")
    m("hashBy of non-string type", doc_small, lambda d: d["connectors"][1].__setitem__("algo", {"hashBy": "1 + 1"}), "connector")
    m("hashBy with syntax error", doc_small, lambda d: d["connectors"][1].__setitem__("algo", {"hashBy": "request."}), "connector")
    return out


def rewrite_ports(doc):
    """give every bind its own free port; returns list of (listener name, type, port, protocol)"""
    ls = []
    if isinstance(doc.get("metrics"), dict) and isinstance(doc["metrics"].get("bind"), str):
        doc["metrics"]["bind"] = "127.0.0.1:%d" % free_port()
    for l in doc.get("listeners") or []:
        if isinstance(l, dict) and isinstance(l.get("bind"), str):
            p = free_port()
            l["bind"] = "127.0.0.1:%d" % p
            ls.append((l.get("name"), l.get("type", l.get("name")), p, l.get("protocol", "tcp")))
    return ls


async def run_test_mode(binary, wd, idx, doc):
    d = os.path.join(wd, "m%d" % idx)
    os.makedirs(d, exist_ok=True)
    path = os.path.join(d, "config.yaml")
    with open(path, "w") as f:
        json.dump(doc, f)
    env = dict(os.environ)
    env.pop("REDPROXY_VERIF_INPROC", None)
    env["RUST_BACKTRACE"] = "0"
    p = await asyncio.create_subprocess_exec(binary, "-c", path, "-t", "1", "-l", "erro", cwd=d, stdout=asyncio.subprocess.PIPE, stderr=asyncio.subprocess.PIPE, env=env)
    try:
        so, se = await asyncio.wait_for(p.communicate(), 30)
    except asyncio.TimeoutError:
        p.kill()
        return "timeout", "", d
    se = (se or b"").decode("utf8", "replace")
    i = se.find("panicked at")
    return p.returncode, (se[i:i + 400] if i >= 0 else se[-400:]), d


async def probe_started(out, binary, wd, idx, desc, doc, oport, cls):
    doc = copy.deepcopy(doc)
    ls = rewrite_ports(doc)
    d = os.path.join(wd, "s%d" % idx)
    os.makedirs(d, exist_ok=True)
    px = Proxy(binary, doc, "S%d" % idx, d, log="erro")
    try:
        try:
            await px.start(wait=False)
        except Exception:
            return
        await asyncio.sleep(0.6)
        if not px.alive():
            rc = px.exit_status()
            if rc is not None and rc < 0:
                out.violation("configuration accepted by --test kills the proxy at startup [%s]" % cls, {"mutation": desc, "signal": -rc, "stderr": px.stderr_tail(400)})
            else:
                out.count("accepted_but_exits_with_error_at_startup")
            return
        cpu0 = px.cpu_seconds()
        t0 = now()
        for (name, typ, port, proto) in ls:
            if proto == "udp" or typ not in ("http", "socks", "reverse"):
                continue
            try:
                c = await asyncio.wait_for(open_conn("127.0.0.1", port), 2)
            except Exception:
                continue
            try:
                if typ == "http":
                    c.write(http_connect_bytes("127.0.0.1", oport))
                elif typ == "socks":
                    c.write(bytes([5, 2, 0, 2, 1, 1]) + b"a" + bytes([1]) + b"a" + bytes([5, 1, 0]) + addr_v5("127.0.0.1", oport))
                c.write(b"hello")
                await c.drain()
                try:
                    # (a mutant can route the request to an upstream that does not exist; the QUIC connector then only gives up
                    # after its 30 s handshake timeout - that is waiting, not hanging)
                    await c.read_some(4096, timeout=40)
                except asyncio.TimeoutError:
                    out.violation("accepted configuration: a well-formed request is neither answered nor closed within 40 s [%s]" % cls, {"mutation": desc, "listener": name})
                except Exception:
                    pass
            finally:
                c.close()
        await asyncio.sleep(1.3)  # collector + access log
        if not px.alive():
            rc = px.exit_status()
            out.violation("configuration accepted by --test crashes the proxy when traffic arrives [%s]" % cls, {"mutation": desc, "exit": rc, "stderr": px.stderr_tail(500)})
            return
        cpu = px.cpu_seconds() - cpu0
        if cpu > 0.8 * (now() - t0) and cpu > 1.5:
            out.violation("configuration accepted by --test makes the proxy spin when traffic arrives [%s]" % cls, {"mutation": desc, "cpu_s": round(cpu, 2), "wall_s": round(now() - t0, 2)})
        out.count("started_and_probed")
    finally:
        px.kill()


async def main(args):
    out = Out("C18", "c18", "configuration documents obtained from three valid seeds (an equivalent of the shipped config.yaml, a small harness config, and the shipped file's transparent-proxy listeners) by deleting / retyping (19 replacement values) / duplicating every field, plus targeted mutants: listener/connector type and name, duplicate names, balancer graphs (empty, missing, self, cycles, diamond), rule filters (syntax, type, arity, tuple index, run-time errors, nesting depth 10..100000), access-log formats, TLS material; each judged by `redproxy-rs --test`; accepted ones started and probed; arbitrary JSON posted to /api/rules. distinct = distinct mutants")
    rng = random.Random(args.seed)
    wd = workdir("c18")
    origin = await TcpOrigin(echo_handler, host="127.0.0.1").start()
    seeds = seed_configs(origin.port)
    muts = []
    # the unmutated seeds must be accepted
    for name, doc in seeds:
        muts.append(("%s: unchanged" % name, copy.deepcopy(doc), "seed"))
    muts += targeted_mutants(seeds[1][1], seeds[0][1])
    for name, doc in seeds:
        muts += structural_mutants(rng, name, doc, 1200 if args.thorough else 130)
    accepted = []
    sem = asyncio.Semaphore(12)
    verdicts = {"accepted": 0, "rejected": 0}

    async def one(i, desc, doc, cls):
        if cls == "rule-depth":
            cls = "rule nested %s levels deep" % ("1000 or more" if int(desc.split("depth ")[1]) >= 1000 else "up to 100")
        async with sem:
            out.case()
            rc, err, d = await run_test_mode(args.bin, wd, i, doc)
            out.nontrivial(desc)
            if rc == 0:
                verdicts["accepted"] += 1
                accepted.append((i, desc, doc, cls))
                if cls == "seed":
                    out.count("seeds_accepted")
            elif rc == 1:
                verdicts["rejected"] += 1
                if cls == "seed":
                    out.violation("harness: the unmutated seed configuration is rejected", {"seed": desc, "stderr": err})
                if not err.strip():
                    out.violation("configuration rejected without any error message [%s]" % cls, {"mutation": desc})
            elif rc == "timeout":
                out.violation("--test does not terminate within 30 s [%s]" % cls, {"mutation": desc})
            else:
                sig = -rc if isinstance(rc, int) and rc < 0 else rc
                what = "stack overflow" if "overflowed its stack" in err else "panic" if "panicked" in err else "signal"
                site = ""
                if "panicked at" in err:
                    site = err.split("panicked at", 1)[1].strip().split(":")[0]
                    # a stable, short location: crate-relative for the repository, "<crate>/src/.." for dependencies
                    if "/src/" in site and "/registry/" in site:
                        site = site.rsplit("/", 3)[-3].rsplit("-", 1)[0] + "/src/" + site.split("/src/", 1)[1]
                    elif site.startswith("/rustc/"):
                        site = "std:" + site.split("/library/", 1)[-1]
                    site = site[:60]
                out.violation("loading a bad configuration crashes the process instead of reporting an error [%s] (%s%s)" % (cls, what, (" " + site) if site else ""),
                              {"mutation": desc, "exit": rc, "signal": sig, "stderr": err[-300:]})
            if out_samples_wanted(out) and cls != "seed":
                out.sample({"mutation": desc, "verdict": "accepted" if rc == 0 else "rejected" if rc == 1 else "crash", "message": err.strip().split("\n")[-1][:120]})
            import shutil
            shutil.rmtree(d, ignore_errors=True)
    await asyncio.gather(*[one(i, *m) for i, m in enumerate(muts)])
    out.setx("verdicts", verdicts)
    # ---- accepted => runs
    rng.shuffle(accepted)
    # targeted mutants first, then everything that touches the sections only used when the proxy really starts (metrics server,
    # access log), then a sample of the rest
    prio = [a for a in accepted if a[3] not in ("retype", "delete", "duplicate") or ": metrics/" in a[1] or ": accessLog/" in a[1] or ": timeouts/" in a[1] or ": ioParams/" in a[1]]
    rest = [a for a in accepted if a not in prio]
    todo = prio + rest[:(300 if args.thorough else 25)]
    sem2 = asyncio.Semaphore(8)

    async def started(a):
        async with sem2:
            out.case()
            cls = a[3]
            if cls == "rule-depth":
                cls = "rule nested %s levels deep" % ("1000 or more" if int(a[1].split("depth ")[1]) >= 1000 else "up to 100")
            await probe_started(out, args.bin, wd, *a[:3], origin.port, cls)
    await asyncio.gather(*[started(a) for a in todo])
    # ---- arbitrary JSON to POST /rules
    doc = copy.deepcopy(seeds[1][1])
    rewrite_ports(doc)
    px = Proxy(args.bin, doc, "R", wd, log="erro")
    try:
        await px.start()
        port = int(doc["metrics"]["bind"].rsplit(":", 1)[1])
        bodies = [b"", b"{", b"null", b"[]", b"{}", b"[null]", b"[1]", b"[[]]", b"[{}]", b'[{"target": 5}]', b'[{"target": "direct", "filter": 5}]', b'[{"target": "direct", "filter": null}]',
                  b'[{"target": "nope"}]', b'[{"target": "direct", "filter": "1 == \\"a\\""}]', b'[{"target": "direct", "filter": "to_string()"}]', b'[{"target": "direct", "filter": "(1,2).5 == 1"}]',
                  b'[{"target": "direct", "filter": "request.target.port +"}]', b'[{"target": "direct", "stats": {"exec": "x"}}]', b'[{"target": "direct", "extra": [1,2,3]}]', b"[" * 2000 + b"]" * 2000,
                  json.dumps([{"target": "direct", "filter": "(" * 3000 + "true" + ")" * 3000}]).encode(), json.dumps([{"target": "direct", "filter": "!" * 20000 + "true"}]).encode(),
                  json.dumps([{"target": "direct"}] * 5000).encode(), b"\xff\xfe", json.dumps([{"target": "direct", "filter": "true"}]).encode()]
        for b in bodies:
            out.case()
            out.nontrivial(("post-rules", b[:40]))
            try:
                st, _, _ = await http_call("127.0.0.1", port, "POST", "/api/rules", b, 10)
            except Exception as e:
                st = repr(e)[:80]
            await asyncio.sleep(0.02)
            if not px.alive():
                deep = b.count(b"(") > 500 or b.count(b"!") > 500 or b.count(b"[") > 500
                out.violation("posting a rule list crashes the process [%s]" % ("nesting deeper than 500" if deep else "other body"), {"body": b[:120].decode("latin1"), "exit": px.exit_status(), "stderr": px.stderr_tail(300)})
                await px.start()
                continue
            if not isinstance(st, int):
                out.violation("posting a rule list gets no HTTP response", {"body": b[:120].decode("latin1"), "error": st})
        out.count("rule_posts", len(bodies))
    finally:
        px.kill()
    await origin.stop()
    import shutil
    shutil.rmtree(wd, ignore_errors=True)
    out.finish()


def out_samples_wanted(out):
    return len(out.samples) < 6


if __name__ == "__main__":
    run_main(main)
