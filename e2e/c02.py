"""C02 (end-to-end part) — the attributes the rules see are the real connection's, first match wins, nothing leaks on deny.
A real proxy with http / socks listeners on 127.0.0.1 and ::1, a TLS http listener and a reverse listener; twelve direct
connectors k0..k11 (which one served a request is read from /api/history by the client's source port).  Rule lists built from
attribute templates whose truth value the harness computes from what the client really did (which listener it connected to,
from which address and port, which destination it named in which form) are posted through /api/rules; then a batch of requests
with a unique token glued to the handshake is sent.  Verdict per request: served by exactly the first matching rule's connector,
refused (and recorded as such) when that is deny or nothing matches; for refused requests no origin connection is opened and no
origin ever sees their token."""
import asyncio
import json
import random

from .lib import Out, Proxy, TcpOrigin, base_cfg, client_ssl, free_port, http_connect, now, open_conn, run_main, socks4_connect, socks5_connect, tls_server, workdir

K = 12


class Req:
    def __init__(self, listener, lhost, src_host, src_port, form, thost, tport, proto):
        self.listener, self.lhost, self.src_host, self.src_port = listener, lhost, src_host, src_port
        self.form, self.thost, self.tport, self.proto = form, thost, tport, proto

    @property
    def ttype(self):
        return {"v4": "ipv4", "v6": "ipv6", "dom": "domain"}[self.form]

    @property
    def stype(self):
        return "ipv6" if ":" in self.src_host else "ipv4"


def in_cidr(host, cidr):
    import ipaddress
    try:
        a = ipaddress.ip_address(host)
    except ValueError:
        return None
    n = ipaddress.ip_network(cidr)
    if a.version != n.version:
        return False
    return a in n


CIDRS = ["127.0.0.0/8", "127.0.0.1/32", "127.0.0.2/31", "10.0.0.0/8", "0.0.0.0/0", "::1/128", "::/0", "::/127", "fe80::/10", "::ffff:0:0/96", "::2/127"]


def gen_atom(rng, reqs, listeners, ports):
    """returns (filter text, truth function Req -> True/False/None(error))"""
    q = rng.choice(reqs)
    k = rng.randrange(18)
    if k == 0:
        l = rng.choice(listeners + ["nobody"])
        return 'request.listener == "%s"' % l, lambda r: r.listener == l
    if k == 1:
        l = rng.choice(listeners)
        return 'request.listener != "%s"' % l, lambda r: r.listener != l
    if k == 2:
        h = rng.choice(["127.0.0.1", "::1", "127.0.0.2", "localhost"])
        return 'request.source.host == "%s"' % h, lambda r: r.src_host == h
    if k == 3:
        t = rng.choice(["ipv4", "ipv6", "domain"])
        return 'request.source.type == "%s"' % t, lambda r: r.stype == t
    if k == 4:
        p = q.src_port
        return 'request.source.port == %d' % p, lambda r: r.src_port == p
    if k == 5:
        p = q.src_port + rng.choice([-1, 0, 1])
        return 'request.source.port >= %d' % p, lambda r: r.src_port >= p
    if k == 6:
        h = rng.choice([q.thost, "127.0.0.1", "::1", "localhost", "LOCALHOST", "localhost."])
        return 'request.target.host == "%s"' % h, lambda r: r.thost == h
    if k == 7:
        t = rng.choice(["ipv4", "ipv6", "domain"])
        return 'request.target.type == "%s"' % t, lambda r: r.ttype == t
    if k == 8:
        p = rng.choice(ports + [1])
        return 'request.target.port == %d' % p, lambda r: r.tport == p
    if k == 9 and rng.random() < 0.5:
        # members that are expressions, not literals
        p = rng.choice(ports)
        return 'request.target.port _: [request.source.port, (%d - 1) + 1, 0 - 1]' % p, lambda r: r.tport == r.src_port or r.tport == p
    if k == 9:
        ps = rng.sample(ports, 2) + [7]
        return 'request.target.port _: [%s]' % ", ".join(map(str, ps)), lambda r: r.tport in ps
    if k == 10:
        c = rng.choice(CIDRS)
        return 'cidr_match(request.source.host, "%s")' % c, lambda r: in_cidr(r.src_host, c)
    if k == 11:
        c = rng.choice(CIDRS)
        # a domain target is not an address: the filter fails or is false - either way it does not match
        return 'cidr_match(request.target.host, "%s")' % c, lambda r: in_cidr(r.thost, c) or False
    if k == 12:
        f = rng.choice(["TcpForward", "UdpForward", "TcpBind"])
        return 'request.feature == "%s"' % f, lambda r: f == "TcpForward"
    if k == 13:
        p = rng.choice(ports)
        return 'request.target.port < %d' % p, lambda r: r.tport < p
    if k == 14:
        pat = rng.choice(["^127\\\\.", "^::1$", "^local", "host$", "^LOCAL"])
        import re
        rx = re.compile(pat.replace("\\\\", "\\"))
        return 'request.target.host =~ "%s"' % pat, lambda r: rx.search(r.thost) is not None
    if k == 15:
        # the pattern is computed from the request itself, so it differs from one request to the next
        return 'request.target =~ to_string(request.target.port)', lambda r: True
    if k == 16:
        neg = rng.random() < 0.5
        return 'request.target.type %s request.source.type' % ("!~" if neg else "=~"), lambda r: (r.ttype == r.stype) != neg
    # a filter that fails at run time for some requests: a host label that is not a number
    return 'to_integer(split(request.target.host, ".")[0]) == 127', lambda r: (r.thost.split(".")[0] == "127") if r.thost.split(".")[0].isdigit() else None


def gen_filter(rng, reqs, listeners, ports, depth=0):
    k = rng.randrange(10)
    if depth >= 2 or k < 5:
        return gen_atom(rng, reqs, listeners, ports)
    a, fa = gen_filter(rng, reqs, listeners, ports, depth + 1)
    if k == 5:
        return "!(%s)" % a, lambda r: None if fa(r) is None else (not fa(r))
    b, fb = gen_filter(rng, reqs, listeners, ports, depth + 1)
    if k in (6, 7):
        def f_and(r):
            x = fa(r)
            if x is None:
                return None
            if not x:
                return False
            return fb(r)
        return "(%s) && (%s)" % (a, b), f_and

    def f_or(r):
        x = fa(r)
        if x is None:
            return None
        if x:
            return True
        return fb(r)
    return "(%s) || (%s)" % (a, b), f_or


async def main(args):
    out = Out("C02", "c02-e2e", "rule lists (1..10 rules from attribute templates over request.listener / source.host,type,port / target.host,type,port / feature / cidr_match / regex / a run-time-failing filter, combined with ! && ||, deny and filterless rules anywhere) posted through /api/rules (after four lists in ten a list that is rejected is posted as well and must leave no trace), then batches of real requests (http and socks5 listeners on 127.0.0.1 and ::1, TLS http, socks4, reverse; destination as IPv4 literal, IPv6 literal, domain; three origin ports; known source address and port) each with a unique token glued to its handshake. distinct = distinct (listener, destination form, expected outcome class, index of the deciding rule)")
    rng = random.Random(args.seed)
    wd = workdir("c02")
    seen_tokens = []

    async def rec_handler(r, w, o, info):
        buf = b""
        info["data"] = buf
        while True:
            b = await r.read(65536)
            if not b:
                break
            buf += b
            info["data"] = buf
            w.write(b)
            await w.drain()
    origins = [await TcpOrigin(rec_handler, host=None).start() for _ in range(3)]
    ports = [o.port for o in origins]
    P = {k: free_port() for k in ("h4", "h6", "s4", "s6", "tls", "rev", "api")}
    listeners = [
        {"name": "h4", "type": "http", "bind": "127.0.0.1:%d" % P["h4"]},
        {"name": "h6", "type": "http", "bind": "[::1]:%d" % P["h6"]},
        {"name": "s4", "type": "socks", "bind": "127.0.0.1:%d" % P["s4"]},
        {"name": "s6", "type": "socks", "bind": "[::1]:%d" % P["s6"]},
        {"name": "tls", "type": "http", "bind": "127.0.0.1:%d" % P["tls"], "tls": tls_server()},
        {"name": "rev", "type": "reverse", "bind": "127.0.0.1:%d" % P["rev"], "target": "localhost:%d" % ports[0]},
    ]
    lnames = [l["name"] for l in listeners]
    connectors = [{"name": "k%d" % i, "type": "direct"} for i in range(K)]
    A = Proxy(args.bin, base_cfg(listeners, connectors, [{"target": "k0"}], metrics_port=P["api"], history=100000), "A", wd)
    try:
        await A.start()
        n_lists = 200 if args.thorough else 45
        token_n = 0
        rejected_posts = 0
        for li in range(n_lists):
            # plan the batch first (the source ports are chosen in advance so that rules can mention them)
            reqs = []
            for _ in range(8):
                listener = rng.choice(lnames)
                lhost = "::1" if listener.endswith("6") else "127.0.0.1"
                form = rng.choice(["v4", "v6", "dom"])
                proto = {"h4": "http", "h6": "http", "tls": "http", "rev": "rev"}.get(listener) or rng.choice(["socks5", "socks5", "socks4"])
                if proto == "socks4" and form == "v6":
                    form = "v4"
                thost = {"v4": "127.0.0.1", "v6": "::1", "dom": "localhost"}[form]
                tport = rng.choice(ports)
                if listener == "rev":
                    form, thost, tport = "dom", "localhost", ports[0]
                reqs.append(Req(listener, lhost, lhost, free_port(), form, thost, tport, proto))
            rules, truths = [], []
            for _ in range(rng.randrange(1, 11)):
                tgt = rng.choice(["deny"] + ["k%d" % rng.randrange(K) for _ in range(4)])
                if rng.random() < 0.12:
                    rules.append({"target": tgt})
                    truths.append(lambda r: True)
                else:
                    f, t = gen_filter(rng, reqs, lnames, ports)
                    rules.append({"filter": f, "target": tgt})
                    truths.append(t)
            st, _, body = await A.api("POST", "/rules", rules, 10)
            if st != 200:
                out.violation("valid rule list rejected by POST /rules", {"rules": rules, "status": st, "body": body[:300].decode("latin1")})
                continue
            if rng.random() < 0.4:
                # a list that is rejected (its last rule is unusable) must leave the accepted list in charge: its first rules are
                # unconditional, so any trace of it changes every decision below
                bad = [{"target": rng.choice(["deny"] + ["k%d" % rng.randrange(K) for _ in range(3)])} for _ in range(rng.randrange(1, 4))]
                bad.append(rng.choice([{"target": "nosuch"}, {"filter": "request.nosuch == 1", "target": "k0"}, {"filter": "request.target.port ==", "target": "k0"},
                                       {"filter": "request.target.port + 1", "target": "k0"}]))
                st2, _, _ = await A.api("POST", "/rules", bad, 10)
                if st2 != 200:
                    rejected_posts += 1
            before = [len(o.accepted) for o in origins]

            async def one(q):
                nonlocal token_n
                token_n += 1
                token = b"<<c02-token-%d-%d>>" % (args.seed, token_n)
                q.token = token
                q.outcome, q.error = None, None
                try:
                    c = await open_conn(q.lhost, P[q.listener], tls=client_ssl() if q.listener == "tls" else None, local=(q.src_host, q.src_port))
                    dest = q.thost
                    if q.proto == "http":
                        st, _ = await http_connect(c, dest, q.tport, early=token)
                        ok = st == 200
                    elif q.proto == "socks5":
                        rep, _, _ = await socks5_connect(c, q.thost, q.tport, early=token)
                        ok = rep == 0
                    elif q.proto == "socks4":
                        ok = (await socks4_connect(c, q.thost, q.tport, b"", token)) == 90
                    else:
                        c.write(token)
                        await c.drain()
                        ok = None  # a reverse listener has no reply: success = the echo arrives
                    try:
                        got = await c.read_exact(len(token), timeout=3.0)
                        echoed = got == token
                    except Exception:
                        echoed = False
                    q.outcome = "served" if (echoed and ok is not False) else "refused"
                    if ok is True and not echoed:
                        q.outcome = "accepted-but-dead"
                    c.close()
                except Exception as e:
                    q.outcome, q.error = "refused", repr(e)[:100]
            await asyncio.gather(*[one(q) for q in reqs])
            await asyncio.sleep(0.05)
            hist = await A.api_json("/history", timeout=30)
            live = await A.api_json("/live", timeout=30)
            by_port = {}
            for h in list(hist) + list(live):
                try:
                    by_port.setdefault(int(h["source"].rsplit(":", 1)[1]), h)
                except Exception:
                    pass
            n_served_expected = 0
            for q in reqs:
                out.case()
                decide, expect = None, None
                for i, (rule, t) in enumerate(zip(rules, truths)):
                    v = t(q)
                    if v is True:
                        decide, expect = i, rule["target"]
                        break
                cls = "no-match" if expect is None else ("deny" if expect == "deny" else "served")
                out.nontrivial((q.listener, q.form, cls, decide))
                w = {"listener": q.listener, "source": "%s:%d" % (q.src_host, q.src_port), "destination": "%s:%d (%s)" % (q.thost, q.tport, q.form), "protocol": q.proto,
                     "rules": rules, "deciding_rule": decide, "expected": expect or "refusal", "client_saw": q.outcome, "error": q.error}
                h = by_port.get(q.src_port)
                if h is not None:
                    w["record"] = {k: h.get(k) for k in ("listener", "source", "target", "connector", "error", "state")}
                if cls == "served":
                    n_served_expected += 1
                    if q.outcome != "served":
                        out.violation("request that the first matching rule sends to a connector was refused", w)
                    elif h is None:
                        out.count("served_without_record_yet")
                    elif h.get("connector") != expect:
                        out.violation("request served by another connector than the first matching rule's", w)
                else:
                    if q.outcome != "refused":
                        out.violation("request reached an upstream although %s" % ("the first matching rule is deny" if cls == "deny" else "no rule matches"), w)
                    elif h is not None and h.get("connector") not in (None, "", "deny"):
                        out.violation("refused request is recorded with a connector", w)
                    for o in origins:
                        for info in o.accepted:
                            if q.token in info.get("data", b""):
                                out.violation("payload of a refused request was forwarded to an origin", w)
                if h is not None:
                    # the record shows what the rules saw
                    if h.get("listener") != q.listener:
                        out.violation("recorded listener differs from the listener the client connected to", w)
                    src = h.get("source", "")
                    if src not in ("%s:%d" % (q.src_host, q.src_port), "[%s]:%d" % (q.src_host, q.src_port)):
                        out.violation("recorded source differs from the client's real address", w)
                    tgt = str(h.get("target", ""))
                    if tgt not in ("%s:%d" % (q.thost, q.tport), "[%s]:%d" % (q.thost, q.tport)):
                        out.violation("recorded target differs from the destination the client named", w)
            after = [len(o.accepted) for o in origins]
            opened = sum(after) - sum(before)
            served = sum(1 for q in reqs if q.outcome == "served")
            if opened > n_served_expected:
                out.violation("more upstream connections were opened than requests the rules allow (a refused request opened one)",
                              {"opened": opened, "allowed": n_served_expected, "served": served, "rules": rules})
            if li < 3:
                out.sample({"rules": rules, "requests": [{"listener": q.listener, "src": "%s:%d" % (q.src_host, q.src_port), "dst": "%s:%d" % (q.thost, q.tport), "outcome": q.outcome} for q in reqs]})
        out.setx("rule_lists", n_lists)
        out.setx("rejected_lists_posted_in_between", rejected_posts)
        if not A.alive():
            out.violation("proxy process died", {"rc": A.exit_status(), "stderr": A.stderr_tail(600)})
    finally:
        A.cleanup()
        for o in origins:
            await o.stop()
    out.finish()


if __name__ == "__main__":
    run_main(main)
