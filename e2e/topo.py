"""Standard topology: clients -> [C (http listener, quic connector) ->] A (all listeners / all connectors)
 -> B (matching listeners, direct) -> harness origins.  Connector selection on A is by target port:
 the origin bank listens on one port per connector kind (and a second, origin-speaks-first bank)."""
import asyncio
import struct

from .lib import (MAGIC, Proxy, TcpOrigin, base_cfg, client_ssl, free_port, http_connect, keystream, now, open_conn,
                  socks4_connect, socks5_connect, tls_client, tls_server, workdir)

CONNECTORS = ["direct", "h", "hs", "s5", "s4", "stls", "q", "lb"]
LISTENERS = ["http", "https", "socks5", "socks5auth", "socks4", "socks4a", "sockstls", "reverse", "quic"]
USER, PASS = "alice", "s3cret"


class Chain:
    def __init__(self, binary, io=None, timeouts=None, tag="t", with_c=True, history=1000, access_log=False, log="warn",
                 a_binary=None, extra_rules=None):
        self.binary = binary
        self.a_binary = a_binary or binary
        self.io, self.timeouts = io, timeouts
        self.wd = workdir(tag)
        self.with_c = with_c
        self.history = history
        self.access_log = access_log
        self.log = log
        self.extra_rules = extra_rules or []
        self.ports = {}
        self.oports = {}   # connector -> origin port (client speaks first bank)
        self.oports2 = {}  # connector -> origin port (origin speaks first bank)
        self.A = self.B = self.C = None

    def _p(self, name, kind="tcp"):
        self.ports[name] = free_port(kind)
        return self.ports[name]

    def build(self):
        b_l = [
            {"name": "http", "bind": "127.0.0.1:%d" % self._p("B.http")},
            {"name": "https", "type": "http", "bind": "127.0.0.1:%d" % self._p("B.https"), "tls": tls_server()},
            {"name": "socks", "bind": "127.0.0.1:%d" % self._p("B.socks")},
            {"name": "sockstls", "type": "socks", "bind": "127.0.0.1:%d" % self._p("B.sockstls"), "tls": tls_server()},
            {"name": "quic", "bind": "127.0.0.1:%d" % self._p("B.quic", "udp"), "tls": tls_server()},
        ]
        b_cfg = base_cfg(b_l, [{"name": "direct"}], [{"target": "direct"}], metrics_port=self._p("B.api"), timeouts=self.timeouts,
                         io=self.io, history=self.history)
        for c in CONNECTORS:
            self.oports[c] = free_port()
            self.oports2[c] = free_port()
        a_l = [
            {"name": "http", "bind": "127.0.0.1:%d" % self._p("A.http")},
            {"name": "https", "type": "http", "bind": "127.0.0.1:%d" % self._p("A.https"), "tls": tls_server()},
            {"name": "socks", "bind": "127.0.0.1:%d" % self._p("A.socks")},
            {"name": "socksauth", "type": "socks", "bind": "127.0.0.1:%d" % self._p("A.socksauth"),
             "auth": {"required": True, "users": [{"username": USER, "password": PASS}]}},
            {"name": "sockstls", "type": "socks", "bind": "127.0.0.1:%d" % self._p("A.sockstls"), "tls": tls_server()},
            {"name": "quic", "bind": "127.0.0.1:%d" % self._p("A.quic", "udp"), "tls": tls_server()},
        ]
        for c in CONNECTORS:
            a_l.append({"name": "rev-" + c, "type": "reverse", "bind": "127.0.0.1:%d" % self._p("A.rev-" + c),
                        "target": "127.0.0.1:%d" % self.oports[c]})
            a_l.append({"name": "rev2-" + c, "type": "reverse", "bind": "127.0.0.1:%d" % self._p("A.rev2-" + c),
                        "target": "127.0.0.1:%d" % self.oports2[c]})
        P = self.ports
        a_c = [
            {"name": "direct"},
            {"name": "h", "type": "http", "server": "127.0.0.1", "port": P["B.http"]},
            {"name": "hs", "type": "http", "server": "localhost", "port": P["B.https"], "tls": tls_client()},
            {"name": "s5", "type": "socks", "server": "127.0.0.1", "port": P["B.socks"]},
            {"name": "s4", "type": "socks", "server": "127.0.0.1", "port": P["B.socks"], "version": 4},
            {"name": "stls", "type": "socks", "server": "localhost", "port": P["B.sockstls"], "tls": tls_client()},
            {"name": "q", "type": "quic", "server": "localhost", "port": P["B.quic"], "tls": tls_client(), "bind": "127.0.0.1:0"},
            {"name": "lb", "type": "loadbalance", "connectors": ["direct", "h"], "algo": "rr"},
        ]
        rules = list(self.extra_rules)
        for c in CONNECTORS:
            rules.append({"filter": "request.target.port _: [%d, %d]" % (self.oports[c], self.oports2[c]), "target": c})
        alog = None
        if self.access_log:
            alog = {"path": "access-A.log", "format": "json"}
        a_cfg = base_cfg(a_l, a_c, rules, metrics_port=self._p("A.api"), timeouts=self.timeouts, io=self.io, history=self.history,
                         access_log=alog)
        self.B = Proxy(self.binary, b_cfg, "B", self.wd, log=self.log)
        self.A = Proxy(self.a_binary, a_cfg, "A", self.wd, log=self.log)
        if self.with_c:
            c_cfg = base_cfg([{"name": "http", "bind": "127.0.0.1:%d" % self._p("C.http")}],
                             [{"name": "q", "type": "quic", "server": "localhost", "port": P["A.quic"], "tls": tls_client(), "bind": "127.0.0.1:0"}],
                             [{"target": "q"}], metrics_port=self._p("C.api"), timeouts=self.timeouts, io=self.io)
            self.C = Proxy(self.binary, c_cfg, "C", self.wd, log=self.log)
        return self

    async def start(self):
        await self.B.start()
        await self.A.start()
        if self.C:
            await self.C.start()
        return self

    def proxies(self):
        return [p for p in (self.A, self.B, self.C) if p]

    def dead(self):
        return [(p.name, p.exit_status()) for p in self.proxies() if not p.alive()]

    def cleanup(self, keep=False):
        for p in self.proxies():
            p.kill()
        if not keep:
            import shutil
            shutil.rmtree(self.wd, ignore_errors=True)

    # ---- opening a tunnel through listener kind lk towards connector ck
    async def open_tunnel(self, lk, ck, host_form="ipv4", early=b"", bank=1, split=None, timeout=10.0, rcvbuf=None, headers=()):
        """returns (Conn, ok, detail). ok=True when the proxy reported success."""
        oport = (self.oports if bank == 1 else self.oports2)[ck]
        host = {"ipv4": "127.0.0.1", "domain": "localhost", "ipv6": "::1"}[host_form]
        P = self.ports

        async def open_conn(host_, port_, tls=None):
            from .lib import open_conn as _oc
            return await _oc(host_, port_, tls=tls, rcvbuf=rcvbuf)

        async def go():
            if lk == "http":
                c = await open_conn("127.0.0.1", P["A.http"])
                st, _ = await http_connect(c, host, oport, early, headers=headers, split=split)
                return c, st == 200, st
            if lk == "https":
                c = await open_conn("127.0.0.1", P["A.https"], tls=client_ssl())
                st, _ = await http_connect(c, host, oport, early, headers=headers, split=split)
                return c, st == 200, st
            if lk == "quic":
                c = await open_conn("127.0.0.1", P["C.http"])
                st, _ = await http_connect(c, host, oport, early, headers=headers, split=split)
                return c, st == 200, st
            if lk == "socks5":
                c = await open_conn("127.0.0.1", P["A.socks"])
                rep, _, _ = await socks5_connect(c, host, oport, early=early, split=split)
                return c, rep == 0, rep
            if lk == "socks5auth":
                c = await open_conn("127.0.0.1", P["A.socksauth"])
                rep, _, _ = await socks5_connect(c, host, oport, auth=(USER, PASS), early=early, split=split)
                return c, rep == 0, rep
            if lk == "sockstls":
                c = await open_conn("127.0.0.1", P["A.sockstls"], tls=client_ssl())
                rep, _, _ = await socks5_connect(c, host, oport, early=early, split=split)
                return c, rep == 0, rep
            if lk == "socks4":
                c = await open_conn("127.0.0.1", P["A.socks"])
                rep = await socks4_connect(c, "127.0.0.1", oport, b"me", early=early, split=split)
                return c, rep == 90, rep
            if lk == "socks4a":
                c = await open_conn("127.0.0.1", P["A.socks"])
                rep = await socks4_connect(c, "localhost", oport, b"", early=early, split=split)
                return c, rep == 90, rep
            if lk == "reverse":
                c = await open_conn("127.0.0.1", P[("A.rev-" if bank == 1 else "A.rev2-") + ck])
                if early:
                    c.write(early)
                    await c.drain()
                return c, True, "reverse"
            raise ValueError(lk)
        return await asyncio.wait_for(go(), timeout)


# ----------------------------------------------------------------------------- payload protocol between harness client and origin
HLEN = 24


def tunnel_header(uid, c2s_total, s2c_len, flags=0):
    return MAGIC + struct.pack(">QIII", uid, c2s_total, s2c_len, flags)


def parse_tunnel_header(b):
    if len(b) < HLEN or b[:4] != MAGIC:
        return None
    uid, c2s_total, s2c_len, flags = struct.unpack(">QIII", b[4:HLEN])
    return uid, c2s_total, s2c_len, flags


F_SLOW_READER = 1      # origin reads slowly with a small receive buffer
F_NO_EOF_WAIT = 2      # client can not half-close (TLS): origin closes after a short grace period
F_ORIGIN_HALFCLOSE = 4  # origin FINs its direction as soon as it has sent everything, keeps reading
F_TINY_RCVBUF = 8      # origin shrinks its receive buffer and reads slowly: back-pressure into the proxy
F_STALL_RST = 16       # origin stops reading after the header and resets the connection 0.4 s later (data dies in flight)


class OriginBank:
    """Origins for every connector kind.  Bank 1: client speaks first (behaviour taken from the tunnel header);
    bank 2: origin speaks first (fixed-length keystream, then reads)."""

    def __init__(self, seed, oports, oports2, first_len=50_000):
        self.seed = seed
        self.oports, self.oports2 = oports, oports2
        self.first_len = first_len
        self.records = {}    # uid -> record (bank 1)
        self.records2 = []   # bank 2 records
        self.noid = []       # connections that never produced a valid header
        self.servers = []
        self.counter = 1 << 40

    async def start(self):
        for ck, p in self.oports.items():
            self.servers.append(await TcpOrigin(self._h1(ck), host=None, port=p).start())
        for ck, p in self.oports2.items():
            self.servers.append(await TcpOrigin(self._h2(ck), host=None, port=p).start())
        return self

    async def stop(self):
        for s in self.servers:
            await s.stop()

    def total_accepted(self):
        return sum(len(s.accepted) for s in self.servers)

    def _h1(self, ck):
        async def handler(r, w, origin, info):
            rec = {"ck": ck, "t_accept": info["t"], "peer": info["peer"], "local": info["local"], "c2s": bytearray(), "eof": False,
                   "uid": None, "s2c_sent": 0, "extra": b"", "error": None}
            try:
                head = b""
                while len(head) < HLEN:
                    b = await r.read(HLEN - len(head))
                    if not b:
                        break
                    head += b
                rec["c2s"] += head
                ph = parse_tunnel_header(head)
                if ph is None:
                    rec["eof"] = len(head) < HLEN
                    self.noid.append(rec)
                    # drain to EOF so that the close is observed
                    while True:
                        b = await r.read(65536)
                        if not b:
                            rec["eof"] = True
                            break
                        rec["c2s"] += b
                    return
                uid, c2s_total, s2c_len, flags = ph
                rec["uid"] = uid
                if flags & F_STALL_RST:
                    import socket as _s, struct as _st
                    w.transport.pause_reading()  # asyncio would otherwise keep draining the socket into its own buffer
                    await asyncio.sleep(0.4)
                    w.get_extra_info("socket").setsockopt(_s.SOL_SOCKET, _s.SO_LINGER, _st.pack("ii", 1, 0))
                    w.transport.abort()
                    rec["aborted"] = True
                    return
                if flags & F_TINY_RCVBUF:
                    import socket as _s
                    w.get_extra_info("socket").setsockopt(_s.SOL_SOCKET, _s.SO_RCVBUF, 65536)
                    await asyncio.sleep(0.5)  # sender runs into full buffers, then we drain at full speed
                if uid in self.records:
                    rec["dup_uid"] = True
                    self.noid.append(rec)
                else:
                    self.records[uid] = rec
                s2c = keystream(self.seed, uid, "s2c", s2c_len)

                async def sender():
                    step = 65536
                    for i in range(0, len(s2c), step):
                        w.write(s2c[i:i + step])
                        await w.drain()
                        rec["s2c_sent"] = min(len(s2c), i + step)
                    rec["s2c_sent"] = len(s2c)
                    if flags & F_ORIGIN_HALFCLOSE:
                        w.write_eof()
                st = asyncio.ensure_future(sender())
                while len(rec["c2s"]) < c2s_total:
                    if flags & F_SLOW_READER:
                        await asyncio.sleep(0.004)
                        b = await r.read(4096)
                    else:
                        b = await r.read(1 << 18)
                    if not b:
                        rec["eof"] = True
                        break
                    rec["c2s"] += b
                await st
                rec["t_all"] = now()
                # anything after the announced end is an injected / duplicated byte
                try:
                    grace = 0.15 if flags & F_NO_EOF_WAIT else 8.0
                    while not rec["eof"]:
                        b = await asyncio.wait_for(r.read(65536), grace)
                        if not b:
                            rec["eof"] = True
                        else:
                            rec["extra"] += b
                            if len(rec["extra"]) > 1 << 20:
                                break
                except asyncio.TimeoutError:
                    pass
            except (ConnectionError, OSError) as e:
                rec["error"] = repr(e)
            finally:
                rec["t_done"] = now()
        return handler

    def _h2(self, ck):
        async def handler(r, w, origin, info):
            self.counter += 1
            oid = self.counter
            rec = {"ck": ck, "oid": oid, "t_accept": info["t"], "c2s": bytearray(), "eof": False, "error": None, "local": info["local"]}
            self.records2.append(rec)
            try:
                body = keystream(self.seed, oid, "s2c", self.first_len)
                w.write(tunnel_header(oid, 0, self.first_len) + body)
                await w.drain()
                while True:
                    b = await r.read(1 << 18)
                    if not b:
                        rec["eof"] = True
                        break
                    rec["c2s"] += b
            except (ConnectionError, OSError) as e:
                rec["error"] = repr(e)
            finally:
                rec["t_done"] = now()
        return handler
