"""C01 — TCP tunnel byte-stream fidelity across every listener x connector pairing.
Monitor: position-keyed keystream equality at the client and origin sockets."""
import asyncio
import itertools
import random

from .lib import Out, classify_mismatch, keystream, now, run_main
from .topo import (CONNECTORS, F_ORIGIN_HALFCLOSE, F_STALL_RST, F_NO_EOF_WAIT, F_SLOW_READER, F_TINY_RCVBUF, HLEN, LISTENERS, Chain, OriginBank, parse_tunnel_header, tunnel_header)

TLS_LISTENERS = {"https", "sockstls"}


async def one_tunnel(out, chain, bank, seed, uid, lk, ck, shape, live):
    """shape: dict(c2s, s2c, first, early, wsz, slow_reader, host, split, halfclose)"""
    key = (lk, ck, shape["io"], shape["cls"])
    out.case()
    c2s_len, s2c_len = shape["c2s"], shape["s2c"]
    res = {"uid": uid, "lk": lk, "ck": ck, "shape": {k: v for k, v in shape.items() if k not in ("split",)}}
    origin_first = shape["first"] == "origin"
    flags = (F_ORIGIN_HALFCLOSE if shape.get("origin_halfclose") else 0) | (F_TINY_RCVBUF if shape.get("backpressure") == "c2s" else 0) | (F_SLOW_READER if shape.get("slow_reader") else 0) | (F_NO_EOF_WAIT if (lk in TLS_LISTENERS or not shape.get("halfclose")) else 0)
    if origin_first:
        c2s = keystream(seed, uid, "c2s", c2s_len)
    else:
        c2s_total = max(c2s_len, HLEN)
        c2s = tunnel_header(uid, c2s_total, s2c_len, flags) + keystream(seed, uid, "c2s", c2s_total - HLEN)
    early = c2s[:shape["early"]]
    rest = c2s[len(early):]
    live[uid] = c2s
    t0 = now()
    try:
        conn, ok, detail = await chain.open_tunnel(lk, ck, shape["host"], early=early, bank=2 if origin_first else 1, split=shape.get("split"),
                                                   rcvbuf=65536 if shape.get("backpressure") == "s2c" else None,
                                                   headers=[("X-Pad-%d" % i, "v%d" % i) for i in range(shape.get("n_headers", 0))])
    except Exception as e:
        if ck == "s4" and shape["host"] == "ipv6" and isinstance(e, (ConnectionError, asyncio.IncompleteReadError)):
            # the legitimate refusal (IPv6 over SOCKS4) of a request that had payload glued to it: the proxy closes with unread
            # data in its receive buffer, the kernel turns that into a reset and the refusal reply may be lost with it
            out.count("refused_ipv6_over_socks4")
            live.pop(uid, None)
            return
        out.violation("tunnel setup failed: %s via %s [%s]" % (lk, ck, type(e).__name__),
                      {"lk": lk, "ck": ck, "shape": res["shape"], "error": repr(e)[:200], "A.stderr": chain.A.stderr_tail(600)})
        live.pop(uid, None)
        return
    if not ok:
        if ck == "s4" and shape["host"] == "ipv6":
            out.count("refused_ipv6_over_socks4")  # legitimate refusal (C03's business)
            conn.close()
            live.pop(uid, None)
            return
        out.violation("tunnel refused: %s via %s" % (lk, ck), {"lk": lk, "ck": ck, "shape": res["shape"], "reply": detail, "A.stderr": chain.A.stderr_tail(600)})
        conn.close()
        live.pop(uid, None)
        return
    got = bytearray()

    async def reader():
        if shape.get("backpressure") == "s2c":
            await asyncio.sleep(0.5)
        while True:
            b = await conn.read_some(1 << 18, timeout=30.0)
            if not b:
                return
            got.extend(b)
            if shape.get("slow_client_reader"):
                await asyncio.sleep(0.003)

    async def writer():
        wsz = shape["wsz"]
        for i in range(0, len(rest), wsz):
            conn.write(rest[i:i + wsz])
            await conn.drain()
            if shape.get("wpause"):
                await asyncio.sleep(shape["wpause"])
        if shape.get("halfclose") and lk not in TLS_LISTENERS:
            conn.eof()
    try:
        if origin_first:
            want_n = HLEN + bank.first_len

            async def read_n():
                while len(got) < want_n:
                    b = await conn.read_some(1 << 18, timeout=20.0)
                    if not b:
                        return
                    got.extend(b)
            if shape.get("read_before_write"):
                await read_n()
                await writer()
            else:
                rt = asyncio.ensure_future(read_n())
                await writer()
                await asyncio.wait_for(rt, 30.0)
            # the origin keeps its direction open until it sees our end-of-stream
            if shape.get("halfclose") and lk not in TLS_LISTENERS:
                await asyncio.wait_for(reader(), 30.0)
            else:
                await asyncio.sleep(0.05)
                conn.close()
        else:
            rt = asyncio.ensure_future(reader())
            await writer()
            await asyncio.wait_for(rt, 60.0)
    except Exception as e:
        res["client_error"] = repr(e)[:200]
    finally:
        conn.close()
    res["wall"] = round(now() - t0, 3)
    others = [("c2s of uid %d" % u, v) for u, v in list(live.items())[:40] if u != uid]
    # ---- verdict: s2c at the client
    if origin_first:
        ph = parse_tunnel_header(bytes(got[:HLEN]))
        if ph is None:
            out.violation("s2c stream corrupted (origin-first): header unreadable %s via %s" % (lk, ck), dict(res, got_head=bytes(got[:48]).hex(), got_len=len(got)))
            live.pop(uid, None)
            return
        oid = ph[0]
        want_s2c = tunnel_header(oid, 0, bank.first_len) + keystream(seed, oid, "s2c", bank.first_len)
        orec = next((r for r in bank.records2 if r["oid"] == oid), None)
    else:
        want_s2c = keystream(seed, uid, "s2c", s2c_len)
        orec = None
        for _ in range(200):
            orec = bank.records.get(uid)
            if orec is not None and "t_done" in orec:
                break
            await asyncio.sleep(0.01)
    m = classify_mismatch(bytes(got), want_s2c, others)
    if m:
        out.violation("s2c stream %s: %s via %s io=%s" % (m["class"], lk, ck, shape["io"]), dict(res, mismatch=m))
    # ---- verdict: c2s at the origin
    if orec is None:
        if len(c2s) > 0 or not origin_first:
            out.violation("origin never saw the tunnel: %s via %s" % (lk, ck), dict(res, client_received=len(got)))
    else:
        for _ in range(300):
            if "t_done" in orec:
                break
            await asyncio.sleep(0.01)
        got_c2s = bytes(orec["c2s"]) + bytes(orec.get("extra", b""))
        m = classify_mismatch(got_c2s, c2s, others)
        if m:
            out.violation("c2s stream %s: %s via %s io=%s" % (m["class"], lk, ck, shape["io"]), dict(res, mismatch=m, origin_error=orec.get("error")))
        if orec["ck"] != ck:
            out.violation("tunnel reached the origin of another connector", dict(res, origin_connector=orec["ck"]))
    if len(c2s) > 0 and (s2c_len > 0 or origin_first):
        out.nontrivial(key)
    out.count("bytes_compared", len(got) + len(c2s))
    if res["wall"] > 2.0:
        out.extra.setdefault("slow_tunnels", []).append([res["wall"], lk, ck, shape["io"], shape["first"], shape.get("halfclose"), c2s_len, s2c_len])
    out.sample({"listener": lk, "connector": ck, "shape": res["shape"], "c2s_bytes": len(c2s), "s2c_bytes": len(got), "wall_s": res["wall"]})
    live.pop(uid, None)


def shapes_for(rng, io_name, bufsz, thorough, n):
    sizes = [0, 1, 2, max(bufsz - 1, 1), bufsz, bufsz + 1, 65536, 300_000]
    if thorough:
        sizes += [1 << 20, 4 << 20, 12 << 20]
    out = []
    for i in range(n):
        c2s = rng.choice(sizes)
        s2c = rng.choice(sizes)
        first = rng.choice(["client", "client", "both", "origin"])
        early_max = min(c2s, 70000) if first != "origin" else min(c2s, 5000)
        early = rng.choice([0, 0, 1, min(HLEN, early_max), early_max, min(early_max, 9000)])
        early = min(early, max(c2s, HLEN) if first != "origin" else c2s)
        cls = "c2s%s/s2c%s/%s/early%s" % (size_class(c2s), size_class(s2c), first, "0" if early == 0 else "+")
        out.append(dict(c2s=c2s, s2c=s2c, first=first, early=early, wsz=rng.choice([1 << 16, 1 << 16, 4096, 1500, 1 << 20]) if max(c2s, 1) > 4096 else rng.choice([1, 3, 4096]),
                        wpause=rng.choice([0, 0, 0, 0.001]), slow_reader=rng.random() < 0.15 and c2s <= (1 << 20), slow_client_reader=rng.random() < 0.1 and s2c <= (1 << 20),
                        host=rng.choice(["ipv4", "ipv4", "domain", "ipv6"]), halfclose=rng.random() < 0.5, read_before_write=rng.random() < 0.5,
                        split=sorted(rng.sample(range(1, 40), rng.randrange(0, 4))) if rng.random() < 0.3 else None, io=io_name, cls=cls))
    return out


def size_class(n):
    return "0" if n == 0 else "1" if n <= 2 else "S" if n <= 70000 else "M" if n <= (1 << 20) else "L"


async def victim(chain, seed, uid, lk, ck, direction):
    """a tunnel that dies abnormally while megabytes are in flight inside the proxy (whatever the proxy holds for it - pipes,
    buffers - must not surface in any later tunnel)"""
    conn = None
    try:
        conn, ok, _ = await chain.open_tunnel(lk, ck, "ipv4", early=b"", bank=1, split=None, rcvbuf=65536 if direction == "s2c" else None)
        if not ok:
            return False
        if direction == "c2s":
            # the origin stops reading after the header and resets 0.4 s later; the client keeps pushing
            conn.write(tunnel_header(uid, 16 << 20, 0, F_STALL_RST) + b"\xa5" * (8 << 20))
            try:
                await asyncio.wait_for(conn.drain(), 2.0)
            except Exception:
                pass
            await asyncio.sleep(0.3)
            conn.abort()
        else:
            # the origin blasts 4 MiB at a client that never reads and resets
            conn.w.transport.pause_reading()
            conn.write(tunnel_header(uid, HLEN, 8 << 20, 0))
            await conn.drain()
            await asyncio.sleep(0.4)
            conn.abort()
        return True
    except Exception:
        return False
    finally:
        if conn is not None:
            conn.close()


async def segmented_upstream_replies(out, args):
    """the handshake reply of an upstream proxy (http, socks5 with an IPv4 / a domain-name bound address) arrives in two TCP segments,
    cut at every offset, and the origin behind it speaks first: what the client then reads must be exactly the origin's bytes - no
    left-over of the upstream's reply in front, nothing missing - and its own bytes must reach the origin unchanged"""
    import struct
    from .lib import Proxy, TcpOrigin, base_cfg, free_port, http_connect, open_conn, socks5_connect, workdir
    REPLIES = {"h": b"HTTP/1.1 200 Connection established\r\nVia: 1.1 fake\r\n\r\n", "s": b"\x05\x00\x00\x01\x7f\x00\x00\x09\x1f\x90",
               "d": b"\x05\x00\x00\x03\x09localhost\x1f\x90"}
    got_up = {}

    async def tail(r, w, kind, port):
        reply, cut = REPLIES[kind], port % 100
        banner = keystream(args.seed, port, "s2c", 64)
        if 0 < cut < len(reply):
            w.write(reply[:cut])
            await w.drain()
            await asyncio.sleep(0.04)      # the first part is consumed before the second arrives
            w.write(reply[cut:] + banner)
        else:
            w.write(reply + banner)
        await w.drain()
        up = b""
        try:
            while True:
                b = await r.read(65536)
                if not b:
                    break
                up += b
                w.write(b)
                await w.drain()
        except Exception:
            pass
        got_up[port] = up
        w.close()

    async def fake_http(r, w, o, info):
        head = await r.readuntil(b"\r\n\r\n")
        await tail(r, w, "h", int(head.split(b" ")[1].rsplit(b":", 1)[1]))

    async def fake_socks(r, w, o, info):
        g = await r.readexactly(2)
        await r.readexactly(g[1])
        w.write(b"\x05\x00")
        await w.drain()
        h = await r.readexactly(4)
        alen = {1: 4, 4: 16}.get(h[3]) or (await r.readexactly(1))[0]
        rest = await r.readexactly(alen + 2)
        port = struct.unpack(">H", rest[-2:])[0]
        await tail(r, w, "s" if port < 3200 else "d", port)
    hup = await TcpOrigin(fake_http, host="127.0.0.1").start()
    sup = await TcpOrigin(fake_socks, host="127.0.0.1").start()
    wd = workdir("c01-seg")
    try:
        for io_name, io in (("splice", {"bufferSize": 65536, "useSplice": True}), ("buffered", {"bufferSize": 65536, "useSplice": False})):
            P = {k: free_port() for k in ("http", "socks", "api")}
            U = Proxy(args.bin, base_cfg([{"name": "http", "bind": "127.0.0.1:%d" % P["http"]}, {"name": "socks", "bind": "127.0.0.1:%d" % P["socks"]}],
                                         [{"name": "hup", "type": "http", "server": "127.0.0.1", "port": hup.port}, {"name": "sup", "type": "socks", "server": "127.0.0.1", "port": sup.port}],
                                         [{"filter": "request.target.port < 3100", "target": "hup"}, {"target": "sup"}], metrics_port=P["api"], io=io), "S-" + io_name, wd)
            try:
                await U.start()

                async def one(lk, kind, cut):
                    # ports: 30xx http upstream, 31xx socks5 upstream (IPv4 bound address), 32xx socks5 upstream (domain bound address); xx = cut
                    port = {"h": 3000, "s": 3100, "d": 3200}[kind] + cut
                    out.case()
                    who = "%s via fake %s upstream io=%s" % (lk, {"h": "http", "s": "socks5", "d": "socks5(domain)"}[kind], io_name)
                    c = await open_conn("127.0.0.1", P[lk])
                    try:
                        if lk == "http":
                            st, _ = await http_connect(c, "127.0.0.1", port)
                            ok = st == 200
                        else:
                            rep, _, _ = await socks5_connect(c, "127.0.0.1", port)
                            ok = rep == 0
                        if not ok:
                            out.violation("tunnel refused although the upstream granted it (reply in two segments): %s" % who, {"cut": cut, "reply_len": len(REPLIES[kind])})
                            return
                        upload = keystream(args.seed, port, "c2s", 3000)
                        c.write(upload)
                        await c.drain()
                        want = keystream(args.seed, port, "s2c", 64) + upload
                        try:
                            got = await c.read_exact(len(want), timeout=20)
                        except Exception:
                            got = bytes(getattr(c, "buf", b""))
                        if got != want:
                            out.violation("s2c stream %s: %s" % (classify_mismatch(got, want)["class"], who), {"upstream_reply_cut_at": cut, "reply_len": len(REPLIES[kind]), "head_hex": got[:24].hex()})
                        c.eof()
                        for _ in range(200):
                            if port in got_up:
                                break
                            await asyncio.sleep(0.05)
                        if got_up.get(port) != upload and port in got_up:
                            out.violation("c2s stream %s: %s" % (classify_mismatch(got_up[port], upload)["class"], who), {"upstream_reply_cut_at": cut})
                        got_up.pop(port, None)
                        out.nontrivial((lk, kind, io_name, "segmented-upstream-reply", cut))
                    finally:
                        c.close()
                for lk in ("http", "socks"):
                    jobs = [one(lk, kind, cut) for kind in ("h", "s", "d") for cut in range(0, len(REPLIES[kind]))]
                    for i in range(0, len(jobs), 16):
                        await asyncio.gather(*jobs[i:i + 16])
                if not U.alive():
                    out.violation("proxy process died", {"proxy": "S-" + io_name})
            finally:
                U.kill()
    finally:
        await hup.stop()
        await sup.stop()


async def main(args):
    out = Out("C01", "c01", "every listener kind x connector kind x io mode (splice on/off, several bufferSize) with drawn shapes (payload sizes 0..multi-MB per direction, who speaks first, early data glued to the handshake, write sizes, pauses, slow readers, target as IPv4/domain/IPv6, segmented handshakes), 1..32 tunnels concurrently; both byte streams compared with position-keyed keystreams. distinct = distinct (listener, connector, io mode, shape class) with payload in both directions")
    rng = random.Random(args.seed)
    modes = [("splice-64k", {"bufferSize": 65536, "useSplice": True}), ("buffered-4k", {"bufferSize": 4096, "useSplice": False})]
    if args.thorough:
        modes += [("buffered-1", {"bufferSize": 1, "useSplice": False}), ("buffered-7", {"bufferSize": 7, "useSplice": False}),
                  ("splice-1M", {"bufferSize": 1 << 20, "useSplice": True}), ("splice-7", {"bufferSize": 7, "useSplice": True})]
    uid = args.seed * 1_000_000
    for io_name, io in modes:
        chain = Chain(args.bin, io=io, tag="c01").build()
        bank = None
        try:
            await chain.start()
            bank = await OriginBank(args.seed, chain.oports, chain.oports2).start()
            pairings = list(itertools.product(LISTENERS, CONNECTORS))
            rng.shuffle(pairings)
            per = 3 if args.thorough else 1
            if io["bufferSize"] < 64:
                per = 1
            jobs = []
            live = {}
            for lk, ck in pairings:
                for sh in shapes_for(rng, io_name, io["bufferSize"], args.thorough and io["bufferSize"] >= 64, per):
                    if io["bufferSize"] < 64:
                        sh["c2s"] = min(sh["c2s"], 20000)
                        sh["s2c"] = min(sh["s2c"], 20000)
                        sh["early"] = min(sh["early"], sh["c2s"])
                    uid += 1
                    jobs.append((uid, lk, ck, sh))
            # back-pressure shapes: the receiver is slower than the sender for megabytes (partial writes in the proxy)
            for bp in ("c2s", "s2c"):
                for lk, ck in (pairings[:6] if args.thorough else pairings[:2]) + [("http", "direct"), ("socks5", "s5"), ("reverse", "h")]:
                    uid += 1
                    big = 8 << 20 if io["bufferSize"] >= 64 else 60000
                    jobs.append((uid, lk, ck, dict(c2s=big if bp == "c2s" else 100, s2c=big if bp == "s2c" else 100, first="client", early=0, wsz=1 << 16, wpause=0,
                                                   slow_reader=False, slow_client_reader=False, host="ipv4", halfclose=True, read_before_write=False, split=None,
                                                   io=io_name, cls="backpressure-" + bp, backpressure=bp)))
            # concurrency ladder: batches of 1, 8, 32 tunnels sharing the proxies
            i = 0
            for width in itertools.cycle([4, 16, 32]):
                batch = jobs[i:i + width]
                if not batch:
                    break
                i += width
                await asyncio.gather(*[one_tunnel(out, chain, bank, args.seed, u, lk, ck, sh, live) for (u, lk, ck, sh) in batch])
                dead = chain.dead()
                if dead:
                    out.violation("proxy process died during tunnels", {"dead": dead, "stderr": {p.name: p.stderr_tail(800) for p in chain.proxies()}})
                    break
            # bursts of the same pairing concurrently (cross-connection leakage)
            for _ in range(6 if args.thorough else 2):
                lk, ck = rng.choice(pairings)
                shs = shapes_for(rng, io_name, io["bufferSize"], False, 24)
                batch = []
                for sh in shs:
                    sh["c2s"] = min(sh["c2s"], 70000)
                    sh["s2c"] = min(sh["s2c"], 70000)
                    sh["early"] = min(sh["early"], sh["c2s"])
                    uid += 1
                    batch.append((uid, lk, ck, sh))
                await asyncio.gather(*[one_tunnel(out, chain, bank, args.seed, u, lk, ck, sh, live) for (u, lk, ck, sh) in batch])
            # CONNECT requests with many header fields (around and beyond any plausible limit) and payload glued to them: whatever
            # the parser does with the head, the tunnel starts exactly behind the blank line
            batch = []
            for nh in (30, 62, 63, 64, 65, 100, 300):
                for lk2, ck2 in (("http", "direct"), ("quic", "h"), ("https", "direct")):
                    uid += 1
                    batch.append((uid, lk2, ck2, dict(c2s=4000, s2c=4000, first="client", early=2000, wsz=4096, wpause=0, slow_reader=False, slow_client_reader=False,
                                                       host="ipv4", halfclose=True, read_before_write=False, split=None, io=io_name, cls="many-headers-%d" % nh, n_headers=nh)))
            await asyncio.gather(*[one_tunnel(out, chain, bank, args.seed, u, lk, ck, sh, live) for (u, lk, ck, sh) in batch])
            # the origin finishes (FIN) right after a short answer while the client still uploads for a while: every uploaded byte
            # must still arrive (a relay that stops when one direction ends loses them)
            batch = []
            for lk, ck in [("http", "direct"), ("socks5", "s5"), ("reverse", "h"), ("http", "q")] + pairings[:4]:
                if lk in TLS_LISTENERS:
                    continue
                uid += 1
                batch.append((uid, lk, ck, dict(c2s=300_000 if io["bufferSize"] >= 64 else 20000, s2c=100, first="client", early=0, wsz=4096, wpause=0.004, slow_reader=False, slow_client_reader=False,
                                                host="ipv4", halfclose=True, read_before_write=False, split=None, io=io_name, cls="origin-halfclose-first", origin_halfclose=True)))
            await asyncio.gather(*[one_tunnel(out, chain, bank, args.seed, u, lk, ck, sh, live) for (u, lk, ck, sh) in batch])
            # tunnels that die with data in flight, then fresh tunnels: nothing of a dead tunnel may surface in a later one
            for rnd in range(6 if args.thorough else 3):
                lk, ck = [("http", "direct"), ("socks5", "s5"), ("reverse", "h")][rnd % 3] if rnd < 3 else rng.choice(pairings)
                if lk in TLS_LISTENERS or lk == "quic":
                    lk = "http"
                vs = []
                for d in ("c2s", "s2c", "c2s", "s2c", "c2s", "s2c"):
                    uid += 1
                    vs.append(victim(chain, args.seed, uid, lk, ck, d))
                died = sum(1 for x in await asyncio.gather(*vs) if x)
                out.count("tunnels_killed_with_data_in_flight", died)
                await asyncio.sleep(0.2)
                batch = []
                for sh in shapes_for(rng, io_name, io["bufferSize"], False, 8):
                    sh["c2s"] = min(max(sh["c2s"], 3000), 70000)
                    sh["s2c"] = min(max(sh["s2c"], 3000), 70000)
                    sh["early"] = min(sh["early"], sh["c2s"])
                    sh["cls"] = "after-aborted-tunnels"
                    uid += 1
                    batch.append((uid, lk, ck, sh))
                await asyncio.gather(*[one_tunnel(out, chain, bank, args.seed, u, lk, ck, sh, live) for (u, lk, ck, sh) in batch])
            if bank.noid:
                bad = [r for r in bank.noid if len(r["c2s"]) > 0]
                if bad:
                    out.violation("origin received a stream that does not start with any tunnel's first byte (framing/handshake bytes leaked or bytes lost)",
                                  {"count": len(bad), "head": bytes(bad[0]["c2s"][:48]).hex(), "connector": bad[0]["ck"]})
            out.count("origin_connections", bank.total_accepted())
        finally:
            if bank:
                await bank.stop()
            chain.cleanup(args.keep)
    await segmented_upstream_replies(out, args)
    out.finish()


if __name__ == "__main__":
    run_main(main)
