"""C14 — the management API never blocks the data plane; a stalled client hurts only itself.
Phase 1 measures API and fresh-tunnel latencies without stallers; phase 2 places clients stalled after k bytes of
their handshake (every protocol), half-done TLS handshakes, a QUIC handshake whose packets stop arriving, and tunnels
whose reader stopped, while API pollers and fresh-connection probes run CONCURRENTLY; every call must complete
within B = max(2 s, 20 x baseline p99); phase 3 releases the stallers and checks recovery."""
import asyncio
import json
import random
import socket
import struct

from .lib import (Out, Proxy, TcpOrigin, addr_v5, base_cfg, client_ssl, echo_handler, free_port, http_connect, http_connect_bytes, now, open_conn,
                  run_main, socks4_connect, socks5_connect, tls_client, tls_server, workdir)

USER, PASS = "alice", "s3cret"
ENDPOINTS = [("GET", "/status"), ("GET", "/live"), ("GET", "/history"), ("GET", "/rules"), ("POST", "/rules"), ("GET", "/metrics"), ("POST", "/logrotate")]
PROBES = ["http", "https", "socks5", "socks5auth", "socks4", "sockstls", "quic"]


class UdpRelay(asyncio.DatagramProtocol):
    """forwards client->server datagrams until `limit` of them were passed, then drops (stalls a QUIC handshake)"""

    def __init__(self, server, limit):
        self.server, self.limit, self.n, self.client = server, limit, 0, None

    def connection_made(self, tr):
        self.tr = tr

    def datagram_received(self, data, addr):
        if addr[1] == self.server[1]:
            if self.client:
                self.tr.sendto(data, self.client)
            return
        self.client = addr
        self.n += 1
        if self.n <= self.limit:
            self.tr.sendto(data, self.server)


async def probe(kind, P, oport, timeout):
    t0 = now()

    async def go():
        payload = b"probe-" + kind.encode()
        if kind in ("http", "https", "quic"):
            c = await open_conn("127.0.0.1", {"http": P["http"], "https": P["https"], "quic": P["C.http"]}[kind], tls=client_ssl() if kind == "https" else None)
            st, _ = await http_connect(c, "127.0.0.1", oport)
            ok = st == 200
        elif kind in ("socks5", "socks5auth", "sockstls"):
            c = await open_conn("127.0.0.1", {"socks5": P["socks"], "socks5auth": P["socksauth"], "sockstls": P["sockstls"]}[kind], tls=client_ssl() if kind == "sockstls" else None)
            rep, _, _ = await socks5_connect(c, "127.0.0.1", oport, auth=(USER, PASS) if kind == "socks5auth" else None)
            ok = rep == 0
        else:
            c = await open_conn("127.0.0.1", P["socks"])
            ok = (await socks4_connect(c, "127.0.0.1", oport)) == 90
        try:
            if not ok:
                return "refused"
            c.write(payload)
            await c.drain()
            got = await c.read_exact(len(payload), timeout=timeout)
            return "ok" if got == payload else "corrupt"
        finally:
            c.close()
    try:
        r = await asyncio.wait_for(go(), timeout)
    except asyncio.TimeoutError:
        r = "timeout"
    except Exception as e:
        r = "error:" + type(e).__name__
    return r, now() - t0


async def api_call(A, method, path, rules_doc, timeout):
    t0 = now()
    try:
        body = None
        if method == "POST":
            body = rules_doc if path == "/rules" else b""
        st, _, _ = await A.api(method, path, body, timeout)
        r = "ok" if st == 200 else "status-%d" % st
    except asyncio.TimeoutError:
        r = "timeout"
    except Exception as e:
        r = "error:" + type(e).__name__
    return r, now() - t0


def handshakes(oport):
    hs = {
        "http": http_connect_bytes("127.0.0.1", oport),
        "socks5": bytes([5, 1, 0, 5, 1, 0]) + addr_v5("127.0.0.1", oport),
        "socks5auth": bytes([5, 1, 2, 1, 5]) + USER.encode() + bytes([6]) + PASS.encode() + bytes([5, 1, 0]) + addr_v5("127.0.0.1", oport),
        "socks4": bytes([4, 1]) + struct.pack(">H", oport) + bytes([127, 0, 0, 1]) + b"user\0",
    }
    return hs


async def main(args):
    out = Out("C14", "c14", "stall points: a client stopped after k bytes of a valid handshake for k over the whole handshake of http / https (inside TLS) / socks5 / socks5+auth / socks4 / socks+tls / CONNECT-over-QUIC, half-done TLS handshakes, a QUIC handshake cut after its first packet, tunnels whose reader stopped while the peer blasts data, requests hanging in a connector whose upstream proxy stalls (CONNECT, SOCKS greeting, TLS handshake never answered), and max(32, 3 x cores) tunnels blocked on non-reading peers that the proxy itself reaps after a 3 s idle period; 1..many stallers; pollers on every API endpoint and one fresh tunnel per listener every 50 ms run concurrently. distinct = distinct (phase, endpoint or listener, outcome class)")
    rng = random.Random(args.seed)
    wd = workdir("c14")
    origin = await TcpOrigin(echo_handler, host="127.0.0.1").start()

    async def blast(r, w, o, info):
        try:
            while True:
                w.write(b"z" * 65536)
                await w.drain()
        except Exception:
            pass
    blaster = await TcpOrigin(blast, host="127.0.0.1").start()
    P = {k: free_port() for k in ("http", "https", "socks", "socksauth", "sockstls", "quic", "api", "C.http", "C.api", "S.http", "S.api", "relay", "F.http", "F.api")}
    listeners = [
        {"name": "http", "bind": "127.0.0.1:%d" % P["http"]},
        {"name": "https", "type": "http", "bind": "127.0.0.1:%d" % P["https"], "tls": tls_server()},
        {"name": "socks", "bind": "127.0.0.1:%d" % P["socks"]},
        {"name": "socksauth", "type": "socks", "bind": "127.0.0.1:%d" % P["socksauth"], "auth": {"required": True, "users": [{"username": USER, "password": PASS}]}},
        {"name": "sockstls", "type": "socks", "bind": "127.0.0.1:%d" % P["sockstls"], "tls": tls_server()},
        {"name": "quic", "bind": "127.0.0.1:%d" % P["quic"], "tls": tls_server()},
    ]
    # upstream proxies that accept the TCP connection and then stall: a request routed to them hangs in the connector
    async def stall_upstream(r, w, o, info):
        try:
            await r.read(65536)      # take the request (or the TLS ClientHello / SOCKS greeting) and never answer
            await asyncio.sleep(600)
        except Exception:
            pass
    stall_up = await TcpOrigin(stall_upstream, host="127.0.0.1").start()
    rules = [{"filter": "request.target.port == 9101", "target": "hstall"}, {"filter": "request.target.port == 9102", "target": "sstall"},
             {"filter": "request.target.port == 9103", "target": "tstall"},
             # a balancer only forwards TCP: UDP requests routed to it are refused as an unsupported feature
             {"filter": "request.target.port == 9104 || request.feature == \"UdpForward\" && request.listener == \"socks\"", "target": "lbtcp"}, {"target": "direct"}]
    connectors = [{"name": "direct"}, {"name": "lbtcp", "type": "loadbalance", "connectors": ["direct"], "algo": "rr"},
                  {"name": "hstall", "type": "http", "server": "127.0.0.1", "port": stall_up.port},
                  {"name": "sstall", "type": "socks", "server": "127.0.0.1", "port": stall_up.port},
                  {"name": "tstall", "type": "http", "server": "localhost", "port": stall_up.port, "tls": {"insecure": True}}]
    A = Proxy(args.bin, base_cfg(listeners, connectors, rules, metrics_port=P["api"], access_log={"path": "access.log", "format": "json"}), "A", wd)
    qc = lambda port: [{"name": "q", "type": "quic", "server": "localhost", "port": port, "tls": tls_client(), "bind": "127.0.0.1:0"}]
    C = Proxy(args.bin, base_cfg([{"name": "http", "bind": "127.0.0.1:%d" % P["C.http"]}], qc(P["quic"]), [{"target": "q"}], metrics_port=P["C.api"]), "C", wd)
    S = Proxy(args.bin, base_cfg([{"name": "http", "bind": "127.0.0.1:%d" % P["S.http"]}], qc(P["relay"]), [{"target": "q"}], metrics_port=P["S.api"]), "S", wd)
    # F's QUIC connector makes its FIRST connection to A during the stalled phase (fresh QUIC accept + handshake)
    F = Proxy(args.bin, base_cfg([{"name": "http", "bind": "127.0.0.1:%d" % P["F.http"]}], qc(P["quic"]), [{"target": "q"}], metrics_port=P["F.api"]), "F", wd)
    rules_doc = json.dumps(rules).encode()
    loop = asyncio.get_running_loop()
    relay_tr = None
    held = []
    try:
        await A.start()
        await C.start()
        await S.start()
        await F.start()
        relay_tr, relay = await loop.create_datagram_endpoint(lambda: UdpRelay(("127.0.0.1", P["quic"]), 1), local_addr=("127.0.0.1", P["relay"]))
        # warm up (QUIC connection of C, lazy statics)
        for k in PROBES:
            await probe(k, P, origin.port, 5)
        for m, p in ENDPOINTS:
            await api_call(A, m, p, rules_doc, 5)

        async def phase(name, seconds, bound):
            """runs pollers and probes concurrently for `seconds`; returns list of (what, result, latency)"""
            res = []
            stop = now() + seconds

            async def poll(m, p):
                while now() < stop:
                    r, lat = await api_call(A, m, p, rules_doc, bound + 8)
                    res.append(("api %s %s" % (m, p), r, lat))
                    await asyncio.sleep(0.05)

            async def prob(k):
                while now() < stop:
                    r, lat = await probe(k, P, origin.port, bound + 8)
                    res.append(("tunnel via " + k, r, lat))
                    await asyncio.sleep(0.05)

            async def churn():
                # teardown bursts so that the collector has work
                while now() < stop:
                    cs = []
                    for _ in range(10):
                        try:
                            cs.append(await open_conn("127.0.0.1", P["socks"]))
                        except Exception:
                            pass
                    for c in cs:
                        c.close()
                    await asyncio.sleep(0.2)
            await asyncio.gather(*([poll(m, p) for m, p in ENDPOINTS] + [prob(k) for k in PROBES] + [churn()]))
            return res

        # ---------------- phase 1: baseline
        base = await phase("baseline", 2.5, 5.0)
        lat = sorted(l for (_, r, l) in base if r == "ok")
        bad = [(w, r) for (w, r, l) in base if r != "ok"]
        if bad or not lat:
            out.inconclusive += 1
            out.setx("baseline_failures", bad[:5])
            out.violation("baseline: API or fresh tunnel fails without any staller present", {"examples": bad[:5]}) if bad else None
        p99 = lat[int(len(lat) * 0.99) - 1] if lat else 1.0
        if p99 > 1.0:
            out.inconclusive += 1
        B = max(2.0, 20 * p99)
        out.setx("baseline_p99_s", round(p99, 4))
        out.setx("bound_s", round(B, 2))
        for (w, r, l) in base:
            out.case()
            out.nontrivial(("baseline", w, r))

        # ---------------- phase 2: stallers
        hs = handshakes(origin.port)
        stall_points = 0
        plan = []
        for proto, data in hs.items():
            ks = list(range(0, len(data))) if args.thorough else sorted(set([0, 1, 2, 3, len(data) // 2, len(data) - 2, len(data) - 1] + rng.sample(range(len(data)), 3)))
            for k in ks:
                plan.append((proto, k, data))
        for proto, k, data in plan:
            port = {"http": P["http"], "socks5": P["socks"], "socks5auth": P["socksauth"], "socks4": P["socks"]}[proto]
            try:
                c = await open_conn("127.0.0.1", port)
                if k:
                    c.write(data[:k])
                    await c.drain()
                held.append(c)
                stall_points += 1
            except Exception:
                pass
        # the same inside TLS
        for proto, lport in (("http", P["https"]), ("socks5", P["sockstls"])):
            data = hs[proto]
            for k in ([0, 1, len(data) // 2, len(data) - 1] if not args.thorough else range(0, len(data), 3)):
                try:
                    c = await open_conn("127.0.0.1", lport, tls=client_ssl())
                    if k:
                        c.write(data[:k])
                        await c.drain()
                    held.append(c)
                    stall_points += 1
                except Exception:
                    pass
        # half-done TLS handshakes (raw TCP, a few bytes of a ClientHello record)
        for lport in (P["https"], P["sockstls"]):
            for frag in (b"", b"\x16", b"\x16\x03\x01\x02\x00", b"\x16\x03\x01\x02\x00\x01\x00\x01\xfc\x03\x03"):
                try:
                    c = await open_conn("127.0.0.1", lport)
                    if frag:
                        c.write(frag)
                        await c.drain()
                    held.append(c)
                    stall_points += 1
                except Exception:
                    pass
        # tunnels whose reader stopped while the origin blasts data
        for kind in ("http", "socks5"):
            for _ in range(3):
                try:
                    c = await open_conn("127.0.0.1", P["http"] if kind == "http" else P["socks"], rcvbuf=4096)
                    if kind == "http":
                        await http_connect(c, "127.0.0.1", blaster.port)
                    else:
                        await socks5_connect(c, "127.0.0.1", blaster.port)
                    held.append(c)
                    stall_points += 1
                except Exception:
                    pass
        # tunnels through the QUIC hop (client -> C -> quic -> A -> blaster) whose reader stopped: megabytes pile up on ONE stream of
        # the shared QUIC connection; the other streams of that connection (the "quic" probes) must keep working
        for _ in range(2):
            try:
                c = await open_conn("127.0.0.1", P["C.http"], rcvbuf=4096)
                await http_connect(c, "127.0.0.1", blaster.port)
                c.w.transport.pause_reading()
                held.append(c)
                stall_points += 1
            except Exception:
                pass
        # requests that hang inside a connector because the upstream proxy stalls (after TCP accept: CONNECT never answered,
        # SOCKS greeting never answered, TLS handshake never answered)
        for tport in (9101, 9102, 9103):
            for lport, kind in ((P["http"], "http"), (P["socks"], "socks5")):
                try:
                    c = await open_conn("127.0.0.1", lport)
                    if kind == "http":
                        c.write(b"CONNECT 127.0.0.1:%d HTTP/1.1\r\nHost: x\r\n\r\n" % tport)
                    else:
                        c.write(bytes([5, 1, 0]))
                        await c.drain()
                        await c.read_exact(2, timeout=3)
                        c.write(bytes([5, 1, 0, 1, 127, 0, 0, 1]) + tport.to_bytes(2, "big"))
                    await c.drain()
                    held.append(c)
                    stall_points += 1
                except Exception:
                    pass
        # clients whose complete request is refused and who then just keep the connection open
        refused = [(P["http"], b"GET http://example.com/ HTTP/1.1\r\nHost: example.com\r\n\r\n"),
                   (P["http"], b"CONNECT 127.0.0.1:1 HTTP/1.1\r\nProxy-Protocol: sctp\r\n\r\n"),
                   (P["http"], b"CONNECT 127.0.0.1:1 HTTP/1.1\r\nProxy-Protocol: udp\r\nProxy-Channel: carrier-pigeon\r\n\r\n"),
                   (P["http"], b"CONNECT not-an-authority HTTP/1.1\r\n\r\n"),
                   (P["http"], b"CONNECT 127.0.0.1:9104 HTTP/1.1\r\nProxy-Protocol: udp\r\n\r\n"),              # feature the chosen connector lacks
                   (P["socks"], bytes([5, 1, 0, 5, 3, 0, 1, 127, 0, 0, 1]) + (9104).to_bytes(2, "big")),      # UDP ASSOCIATE, same
                   (P["socks"], bytes([5, 1, 0, 5, 2, 0, 1, 127, 0, 0, 1, 0, 80])),      # BIND
                   (P["socks"], bytes([5, 1, 0, 5, 9, 0, 1, 127, 0, 0, 1, 0, 80])),      # unknown command
                   (P["socksauth"], bytes([5, 1, 2, 1, 1]) + b"x" + bytes([1]) + b"y"),  # wrong password
                   (P["socks"], bytes([4, 2, 0, 80, 127, 0, 0, 1, 0]))]                  # SOCKS4 BIND
        for lport, data in refused:
            try:
                c = await open_conn("127.0.0.1", lport)
                c.write(data)
                await c.drain()
                try:
                    await c.read_some(4096, timeout=1.0)   # take the refusal, then idle
                except Exception:
                    pass
                held.append(c)
                stall_points += 1
            except Exception:
                pass
        # a QUIC handshake whose packets stop arriving (through the dropping relay)
        stalled_quic = asyncio.ensure_future(probe_via(P["S.http"], origin.port))
        stall_points += 1
        # many idle stallers
        for _ in range(200 if args.thorough else 60):
            try:
                held.append(await open_conn("127.0.0.1", rng.choice([P["http"], P["socks"], P["https"]])))
            except Exception:
                pass
        # clients stalled inside an over-long, unterminated line or string of their handshake (request line, header line, SOCKS4
        # user id, SOCKS4a host name; lengths around 4 K / 8 K / 16 K / 64 K and beyond): more of them than the proxy has worker
        # threads, so that a parser which keeps a worker busy on such a client - instead of waiting for bytes - shows
        import os as _os
        long_n = 0
        lens = [4095, 4096, 4097, 8191, 8192, 8193, 8200, 9000, 16384, 16385, 65535, 65536, 65537, 200000]
        shapes = [("http", lambda L: b"CONNECT " + b"a" * L), ("http", lambda L: b"CONNECT 127.0.0.1:9 HTTP/1.1\r\nX-Pad: " + b"b" * L),
                  ("http", lambda L: b"CONNECT 127.0.0.1:9 HTTP/1.1\r\n" + b"c" * L),
                  ("socks", lambda L: b"\x04\x01\x00\x09\x7f\x00\x00\x01" + b"u" * L), ("socks", lambda L: b"\x04\x01\x00\x09\x00\x00\x00\x01u\x00" + b"h" * L)]
        want = max(36, 2 * (_os.cpu_count() or 8) + 4) * (2 if args.thorough else 1)
        for i in range(want):
            lname, mk = shapes[i % len(shapes)]
            L = lens[(i // len(shapes) + i) % len(lens)] if i >= len(lens) else lens[i]
            try:
                c = await open_conn("127.0.0.1", P["http"] if lname == "http" else P["socks"])
                c.write(mk(L))
                await asyncio.wait_for(c.drain(), 3)
                held.append(c)
                long_n += 1
                stall_points += 1
            except Exception:
                pass
        out.setx("stalled_inside_overlong_lines", long_n)
        await asyncio.sleep(0.3)
        out.setx("stall_points", stall_points)
        out.setx("stalled_connections", len(held))
        async def fresh_quic():
            await asyncio.sleep(0.5)
            t0 = now()
            try:
                c = await open_conn("127.0.0.1", P["F.http"])
                st, _ = await asyncio.wait_for(http_connect(c, "127.0.0.1", origin.port), B + 8)
                c.write(b"fresh")
                await c.drain()
                ok = st == 200 and (await c.read_exact(5, timeout=B + 8)) == b"fresh"
                c.close()
                return ("ok" if ok else "refused"), now() - t0
            except asyncio.TimeoutError:
                return "timeout", now() - t0
            except Exception as e:
                return "error:" + type(e).__name__, now() - t0
        fq = asyncio.ensure_future(fresh_quic())
        res = await phase("stalled", 6.0 if not args.thorough else 12.0, B)
        try:
            r, l = await asyncio.wait_for(fq, B + 10)
        except asyncio.TimeoutError:
            r, l = "timeout", B + 10
        res.append(("first QUIC connection of a new peer", r, l))
        worst = {}
        for (w, r, l) in res:
            out.case()
            cls = "ok" if (r == "ok" and l <= B) else ("slow" if r == "ok" else r)
            out.nontrivial(("stalled", w, cls))
            if cls != "ok":
                e = worst.setdefault(w, [0, 0.0, cls])
                e[0] += 1
                e[1] = max(e[1], l)
        for w, (n, l, cls) in sorted(worst.items()):
            out.violation("%s does not complete within its bound while other clients are stalled" % w,
                          {"what": w, "failed_calls": n, "worst_latency_s": round(l, 2), "class": cls, "bound_s": round(B, 2), "baseline_p99_s": round(p99, 4), "stall_points": stall_points})
        out.setx("max_latency_stalled_s", round(max([l for (_, _, l) in res] or [0]), 3))
        out.sample({"phase": "stalled", "calls": len(res), "stall_points": stall_points, "held_connections": len(held), "bound_s": round(B, 2)})
        # ---------------- phase 3: release and recover
        for c in held:
            c.close()
        held = []
        stalled_quic.cancel()
        await asyncio.sleep(1.0)
        rec = await phase("recovered", 2.0, B)
        for (w, r, l) in rec:
            out.case()
            out.nontrivial(("recovered", w, r))
            if r != "ok" or l > B:
                out.violation("%s still failing after the stalled clients went away" % w, {"result": r, "latency_s": round(l, 2)})
                break
        # ---------------- phase 4: the collector has work while the access-log sink is stalled (a FIFO whose reader never
        # drains it: stands for a hung disk or log collector). API calls and fresh connections must still complete.
        import fcntl
        import os
        fifo = os.path.join(wd, "stalled-access.log")
        os.mkfifo(fifo)
        rfd = os.open(fifo, os.O_RDONLY | os.O_NONBLOCK)
        try:
            fcntl.fcntl(rfd, 1031, 4096)  # F_SETPIPE_SZ
        except OSError:
            pass
        PL = {k: free_port() for k in ("http", "socks", "api")}
        L = Proxy(args.bin, base_cfg([{"name": "http", "bind": "127.0.0.1:%d" % PL["http"]}, {"name": "socks", "bind": "127.0.0.1:%d" % PL["socks"]}],
                                     [{"name": "direct"}], [{"target": "direct"}], metrics_port=PL["api"], access_log={"path": fifo, "format": "json"}), "L", wd)
        try:
            await L.start()
            n_short = 1200 if args.thorough else 400
            done = 0
            for i in range(n_short):
                try:
                    c = await open_conn("127.0.0.1", PL["http"] if i % 2 else PL["socks"])
                    if i % 2:
                        await asyncio.wait_for(http_connect(c, "127.0.0.1", origin.port), B + 8)
                    else:
                        await asyncio.wait_for(socks5_connect(c, "127.0.0.1", origin.port), B + 8)
                    c.close()
                    done += 1
                except Exception:
                    break
            await asyncio.sleep(2.5)  # at least two collector rounds
            out.setx("log_stall_short_connections", done)
            lres = []
            for m, pth in (("GET", "/live"), ("GET", "/history"), ("GET", "/status"), ("GET", "/rules")):
                r, l = await api_call(L, m, pth, rules_doc, B + 8)
                lres.append(("api %s %s" % (m, pth), r, l))
            for k in ("http", "socks5"):
                r, l = await probe(k, dict(P, http=PL["http"], socks=PL["socks"]), origin.port, B + 8)
                lres.append(("tunnel via " + k, r, l))
            for (w, r, l) in lres:
                out.case()
                cls = "ok" if (r == "ok" and l <= B) else ("slow" if r == "ok" else r)
                out.nontrivial(("log-stalled", w, cls))
                if cls != "ok":
                    out.violation("%s does not complete within its bound while the access-log sink is stalled" % w,
                                  {"what": w, "class": cls, "latency_s": round(l, 2), "bound_s": round(B, 2), "short_connections_before": done})
            if not L.alive():
                out.violation("proxy process died", {"proxy": "L", "rc": L.exit_status(), "stderr": L.stderr_tail(600)})
            out.sample({"phase": "log-stalled", "short_connections": done, "results": [(w, r, round(l, 3)) for (w, r, l) in lres]})
        finally:
            L.kill()
            os.close(rfd)
        for p in (A, C, S):
            if not p.alive():
                out.violation("proxy process died", {"proxy": p.name, "rc": p.exit_status(), "stderr": p.stderr_tail(600)})
        for c in held:
            c.close()
        held = []
        for p in (A, C, S, F):
            p.kill()
        await asyncio.gather(reaped_blocked_tunnels(out, args, wd, blaster.port, origin.port, B), slow_auth_helper(out, args, wd, origin.port, B))
    finally:
        for c in held:
            c.close()
        held = []
        if relay_tr:
            relay_tr.close()
        for p in (A, C, S, F):
            p.kill()
        import shutil
        shutil.rmtree(wd, ignore_errors=True)
        await origin.stop()
        await blaster.stop()
        await stall_up.stop()
    out.finish()


async def reaped_blocked_tunnels(out, args, wd, blaster_port, oport, B):
    """the proxy itself ends many tunnels that are blocked on peers that do not read (idle period 3 s, megabytes queued towards
    every client): tearing them down must not keep the API or new connections waiting"""
    import os
    P = {k: free_port() for k in ("http", "api")}
    R = Proxy(args.bin, base_cfg([{"name": "http", "bind": "127.0.0.1:%d" % P["http"]}], [{"name": "direct"}], [{"target": "direct"}], metrics_port=P["api"], timeouts={"idle": 3, "udp": 3}), "R", wd)
    held = []
    try:
        await R.start()
        n = max(32, 3 * (os.cpu_count() or 4))
        for _ in range(n):
            try:
                c = await open_conn("127.0.0.1", P["http"], rcvbuf=4096)
                await http_connect(c, "127.0.0.1", blaster_port)
                try:
                    c.w.transport.pause_reading()
                except Exception:
                    pass
                held.append(c)
            except Exception:
                pass
        out.setx("blocked_tunnels_reaped_by_idle_timeout", len(held))
        res = []
        stop = now() + 3 + 1 + (8 if not args.thorough else 14)

        async def poll(path):
            while now() < stop:
                t0 = now()
                try:
                    st, _, _ = await R.api("GET", path, None, B + 8)
                    r = "ok" if st == 200 else "status-%d" % st
                except asyncio.TimeoutError:
                    r = "timeout"
                except Exception as e:
                    r = "error:" + type(e).__name__
                res.append(("api GET " + path, r, now() - t0))
                await asyncio.sleep(0.1)

        async def fresh():
            while now() < stop:
                t0 = now()
                r = "ok"
                try:
                    c = await asyncio.wait_for(open_conn("127.0.0.1", P["http"]), B + 8)
                    try:
                        st, _ = await asyncio.wait_for(http_connect(c, "127.0.0.1", oport), B + 8)
                        c.write(b"ping")
                        await c.drain()
                        if st != 200 or await c.read_exact(4, timeout=B + 8) != b"ping":
                            r = "failed"
                    finally:
                        c.close()
                except asyncio.TimeoutError:
                    r = "timeout"
                except Exception as e:
                    r = "error:" + type(e).__name__
                res.append(("tunnel via http", r, now() - t0))
                await asyncio.sleep(0.1)
        await asyncio.gather(poll("/status"), poll("/live"), poll("/history"), fresh())
        worst = {}
        for (w, r, l) in res:
            out.case()
            cls = "ok" if (r == "ok" and l <= B) else ("slow" if r == "ok" else r)
            out.nontrivial(("reaping-blocked-tunnels", w, cls))
            if cls != "ok" and (w not in worst or l > worst[w][1]):
                worst[w] = (cls, l)
        for w, (cls, l) in worst.items():
            out.violation("%s does not complete within its bound while the proxy tears down tunnels blocked on peers that do not read" % w, {"outcome": cls, "latency_s": round(l, 2), "bound_s": round(B, 2), "tunnels": len(held), "idle_period_s": 3})
        if not R.alive():
            out.violation("proxy process died", {"proxy": "R"})
    finally:
        for c in held:
            c.close()
        R.kill()


async def slow_auth_helper(out, args, wd, oport, B):
    """a client whose credentials take long to verify (the external auth command needs 8 s for it) is a slow client like any other:
    logins of other users on the same listener, which also go through the command, must not wait for it"""
    from .lib import fx
    P = {k: free_port() for k in ("socks", "api")}
    Q = Proxy(args.bin, base_cfg([{"name": "socks", "type": "socks", "bind": "127.0.0.1:%d" % P["socks"], "auth": {"required": True, "cmd": [fx("slowauth.sh"), "#USER#", "#PASS#"], "cache": {"timeout": 60}}}],
                                 [{"name": "direct"}], [{"target": "direct"}], metrics_port=P["api"]), "Q", wd)
    slow = []
    try:
        await Q.start()
        # warm-up: one ordinary login
        c = await open_conn("127.0.0.1", P["socks"])
        rep, _, _ = await socks5_connect(c, "127.0.0.1", oport, auth=("warm", "pw"))
        c.close()
        if rep != 0:
            out.inconclusive += 1
            return
        for i in range(3):
            c = await open_conn("127.0.0.1", P["socks"])
            c.write(bytes([5, 1, 2]))
            await c.drain()
            await c.read_exact(2, timeout=5)
            # (the listener verifies the credentials when the request arrives: send all of it; the verification then takes 8 s)
            c.write(bytes([1, 4]) + b"slow" + bytes([2]) + b"pw" + bytes([5, 1, 0]) + addr_v5("127.0.0.1", oport))
            await c.drain()
            slow.append(c)
        await asyncio.sleep(0.3)
        res = []
        stop = now() + 5.0
        n = 0
        while now() < stop:
            n += 1
            out.case()
            t0 = now()
            r = "ok"
            try:
                c = await open_conn("127.0.0.1", P["socks"])
                try:
                    rep, _, _ = await asyncio.wait_for(socks5_connect(c, "127.0.0.1", oport, auth=("user%d" % n, "pw")), B + 8)
                    if rep != 0:
                        r = "refused"
                finally:
                    c.close()
            except asyncio.TimeoutError:
                r = "timeout"
            except Exception as e:
                r = "error:" + type(e).__name__
            lat = now() - t0
            cls = "ok" if (r == "ok" and lat <= B) else ("slow" if r == "ok" else r)
            out.nontrivial(("slow-auth-helper", cls))
            res.append((cls, lat))
            await asyncio.sleep(0.1)
        bad = [x for x in res if x[0] != "ok"]
        if bad:
            w = max(bad, key=lambda x: x[1])
            out.violation("login of another user does not complete within its bound while one client's credentials are being verified slowly", {"outcome": w[0], "latency_s": round(w[1], 2), "bound_s": round(B, 2), "logins": len(res), "delayed": len(bad)})
        if not Q.alive():
            out.violation("proxy process died", {"proxy": "Q"})
    finally:
        for c in slow:
            c.close()
        Q.kill()


async def probe_via(port, oport):
    try:
        c = await open_conn("127.0.0.1", port)
        await http_connect(c, "127.0.0.1", oport)
    except Exception:
        pass


if __name__ == "__main__":
    run_main(main)
