"""C13 — idle tunnels are closed after the configured timeout, and only then.
Wiring: the idle_timeout shown by /api/live equals the configured timeouts.idle (TCP) / timeouts.udp (UDP) for
every listener kind (the only statement made about the 600 s default).  Timing with small T: a silent tunnel is
closed in [T-0.3, T+1+slack]; a trickle slower than T keeps it open; T=0 never closes."""
import asyncio
import random
import socket
import struct

from .lib import (Out, Proxy, TcpOrigin, UdpEcho, addr_v5, base_cfg, echo_handler, free_port, http_connect, now, open_conn, run_main,
                  socks5_connect, tls_client, tls_server, udp_endpoint, workdir)

SLACK = 3.0


MUTE = {"port": None}   # an origin that echoes, and after the client's FIN neither answers nor closes


async def mute_handler(r, w, origin, info):
    while True:
        b = await r.read(65536)
        if not b:
            break
        w.write(b)
        await w.drain()
    await asyncio.sleep(120)


def build(args, timeouts, io, wd, oport, uport, tag):
    ports = {k: free_port() for k in ("http", "socks", "rev", "revmute", "revudp", "quic", "api", "C.http", "C.api")}
    listeners = [
        {"name": "http", "bind": "127.0.0.1:%d" % ports["http"]},
        {"name": "socks", "bind": "127.0.0.1:%d" % ports["socks"]},
        {"name": "rev", "type": "reverse", "bind": "127.0.0.1:%d" % ports["rev"], "target": "127.0.0.1:%d" % oport},
        {"name": "revmute", "type": "reverse", "bind": "127.0.0.1:%d" % ports["revmute"], "target": "127.0.0.1:%d" % MUTE["port"]},
        {"name": "revudp", "type": "reverse", "protocol": "udp", "bind": "127.0.0.1:%d" % ports["revudp"], "target": "127.0.0.1:%d" % uport},
        {"name": "quic", "bind": "127.0.0.1:%d" % ports["quic"], "tls": tls_server()},
    ]
    cfgA = base_cfg(listeners, [{"name": "direct"}], [{"target": "direct"}], metrics_port=ports["api"], timeouts=timeouts, io=io)
    cfgC = base_cfg([{"name": "http", "bind": "127.0.0.1:%d" % ports["C.http"]}],
                    [{"name": "q", "type": "quic", "server": "localhost", "port": ports["quic"], "tls": tls_client(), "bind": "127.0.0.1:0"}],
                    [{"target": "q"}], metrics_port=ports["C.api"], timeouts={"idle": 0, "udp": 0})
    return Proxy(args.bin, cfgA, "A" + tag, wd), Proxy(args.bin, cfgC, "C" + tag, wd), ports


async def open_kind(kind, ports, oport, uport):
    """returns (conn-like dict) : {'kind', 'close', 'send', 'recv', 'src_port'}"""
    if kind in ("http", "quic"):
        c = await open_conn("127.0.0.1", ports["http"] if kind == "http" else ports["C.http"])
        st, _ = await http_connect(c, "127.0.0.1", oport)
        assert st == 200, st
        return {"kind": kind, "c": c, "src": c.local[1]}
    if kind == "socks":
        c = await open_conn("127.0.0.1", ports["socks"])
        rep, _, _ = await socks5_connect(c, "127.0.0.1", oport)
        assert rep == 0, rep
        return {"kind": kind, "c": c, "src": c.local[1]}
    if kind in ("rev", "revmute"):
        c = await open_conn("127.0.0.1", ports[kind])
        return {"kind": kind, "c": c, "src": c.local[1]}
    if kind in ("http-udp", "http-udpbind"):
        # a UDP association carried over CONNECT with inline frames (Proxy-Protocol: udp)
        from .lib import http_connect_bytes, http_reply
        c = await open_conn("127.0.0.1", ports["http"])
        # "http-udpbind": the same with a Udp-Bind-Source header (feature UdpBind, full-cone source binding) - still a UDP association
        extra = [("Udp-Bind-Source", "127.0.0.1:%d" % c.local[1])] if kind == "http-udpbind" else []
        c.write(http_connect_bytes("0.0.0.0", 0, [("Proxy-Protocol", "udp")] + extra))
        await c.drain()
        st, hdrs = await http_reply(c)
        assert st == 200, st
        attr = bytes([1, 6]) + socket.inet_pton(socket.AF_INET, "127.0.0.1") + struct.pack(">H", uport)
        return {"kind": kind, "c": c, "src": c.local[1], "frame": (int(hdrs.get("session-id", "0")), attr)}
    if kind == "socks-udp":
        c = await open_conn("127.0.0.1", ports["socks"])
        rep, bh, bp = await socks5_connect(c, "0.0.0.0", 0, cmd=3)
        assert rep == 0, rep
        u = socket.socket(socket.AF_INET, socket.SOCK_DGRAM)
        u.bind(("127.0.0.1", free_port()))
        u.setblocking(False)
        hdr = b"\0\0\0" + addr_v5("127.0.0.1", uport)
        return {"kind": kind, "c": c, "u": u, "relay": ("127.0.0.1", bp), "hdr": hdr, "src": c.local[1]}
    if kind == "revudp":
        u = socket.socket(socket.AF_INET, socket.SOCK_DGRAM)
        u.bind(("127.0.0.1", free_port()))
        u.setblocking(False)
        return {"kind": kind, "u": u, "relay": ("127.0.0.1", ports["revudp"]), "hdr": b"", "src": u.getsockname()[1]}
    raise ValueError(kind)


async def ping(t, payload=b"x"):
    """one round trip through the tunnel; returns time of the echo or None"""
    loop = asyncio.get_running_loop()
    if "u" in t:
        await loop.sock_sendto(t["u"], t["hdr"] + payload, t["relay"])
        try:
            data, _ = await asyncio.wait_for(loop.sock_recvfrom(t["u"], 65536), 2.0)
            return now()
        except asyncio.TimeoutError:
            return None
    if "frame" in t:
        sid, attr = t["frame"]
        t["c"].write(b"RPFM" + struct.pack(">IHH", sid, len(attr), len(payload)) + attr + payload)
        await t["c"].drain()
        try:
            head = await t["c"].read_exact(12, timeout=2.0)
            _, alen, blen = struct.unpack(">IHH", head[4:])
            await t["c"].read_exact(alen + blen, timeout=2.0)
            return now()
        except Exception:
            return None
    t["c"].write(payload)
    await t["c"].drain()
    try:
        b = await t["c"].read_exact(len(payload), timeout=2.0)
        return now()
    except Exception:
        return None


async def live_entry(proxy, t):
    try:
        live = await proxy.api_json("/live")
    except Exception:
        return "api-error"
    for e in live:
        if int(e["source"].rsplit(":", 1)[1]) == t["src"]:
            return e
    return None


async def history_entry(proxy, t):
    try:
        h = await proxy.api_json("/history")
    except Exception:
        return None
    for e in h:
        if int(e["source"].rsplit(":", 1)[1]) == t["src"]:
            return e
    return None


async def scenario(out, A, ports, oport, uport, kind, pattern, T, cfgname, io_name):
    """T: expected idle timeout in seconds for this kind (0 = disabled)."""
    out.case()
    who = "%s/%s cfg=%s io=%s" % (kind, pattern, cfgname, io_name)
    try:
        t = await open_kind(kind, ports, oport, uport)
        t_act = await ping(t, b"hello")
        if t_act is None and "u" in t:
            t_act = await ping(t, b"hello")  # datagram loss is C10's business, not this check's
        if t_act is None:
            out.inconclusive += 1
            out.count("inconclusive:" + kind)
            return
    except Exception as e:
        out.violation("tunnel could not be opened for the idle test: %s" % kind, {"who": who, "error": repr(e)})
        return
    side = "C" if kind == "quic" else "A"
    # ---- wiring
    if kind != "quic":
        e = await live_entry(A, t)
        if isinstance(e, dict):
            if e.get("idle_timeout") != T:
                out.violation("idle_timeout of a live %s connection differs from the configured value" % ("UDP" if "udp" in kind else "TCP"),
                              {"who": who, "live_idle_timeout": e.get("idle_timeout"), "configured": T, "listener": e.get("listener")})
                # timing below would only repeat the same defect
                close_t(t)
                return
            out.count("wiring_checked")
        elif e is None:
            out.violation("open tunnel is not listed in /api/live", {"who": who})
    out.nontrivial((kind, pattern, cfgname, io_name))
    # ---- timing
    try:
        if T == 0:
            await asyncio.sleep(8.0)
            ok = await ping(t, b"still")
            if ok is None:
                out.violation("tunnel closed although the idle timeout is disabled (0)", {"who": who, "after_s": 8})
            return
        if pattern in ("trickle-c2s", "trickle") or pattern.startswith("trickle-full-"):
            # activity every T-1 s (at least 0.8 s) for 3T: must stay open throughout. "trickle-full-N": every record is exactly
            # the proxy's buffer size, so every read the proxy makes returns a full buffer
            step = max(0.8, T - 1.0)
            t_end = now() + 3 * T
            rec_payload = b"f" * int(pattern.rsplit("-", 1)[1]) if pattern.startswith("trickle-full-") else b"t"
            while now() < t_end:
                await asyncio.sleep(step)
                r = await ping(t, rec_payload)
                if r is None:
                    out.violation("tunnel closed for idleness although data was relayed less than the period ago", {"who": who, "period_s": T, "trickle_every_s": step, "last_activity_s_ago": round(now() - t_act, 2)})
                    return
                t_act = r
        elif pattern == "fin-late":
            # silence, then shortly before the period ends one side half-closes WITHOUT payload while the other stays open and
            # silent: a FIN is not activity, the period still counts from the last payload byte
            await asyncio.sleep(0.9 * T)
            t["c"].eof()
        elif pattern == "burst":
            for _ in range(5):
                r = await ping(t, b"b" * 2000)
                if r is None:
                    out.inconclusive += 1
                    return
                t_act = r
        # silence: must be closed in [T-0.3, T+1+SLACK] after the last activity
        closed_at = None
        deadline = t_act + T + 1 + SLACK + 2
        if "c" in t:
            try:
                b = await asyncio.wait_for(t["c"].r.read(1), max(0.1, deadline - now()))
                closed_at = now()
            except asyncio.TimeoutError:
                pass
            except (ConnectionError, OSError):
                closed_at = now()
        else:
            # pure UDP session: observe through /api/live
            while now() < deadline:
                e = await live_entry(A, t)
                if e is None:
                    closed_at = now()
                    break
                await asyncio.sleep(0.25)
        if closed_at is None:
            responsive = await live_entry(A, t)
            if responsive == "api-error":
                out.inconclusive += 1
            else:
                out.violation("idle tunnel still open after the configured period plus granularity", {"who": who, "period_s": T, "waited_s": round(now() - t_act, 2)})
            return
        idle = closed_at - t_act
        if idle < T - 0.3:
            out.violation("tunnel closed for idleness before the configured period elapsed", {"who": who, "period_s": T, "closed_after_s": round(idle, 2)})
        elif idle > T + 1 + SLACK:
            out.violation("idle tunnel closed later than the period plus scheduling granularity", {"who": who, "period_s": T, "closed_after_s": round(idle, 2)})
        else:
            out.sample({"who": who, "period_s": T, "closed_after_idle_s": round(idle, 2)})
            out.count("timed_closes_in_window")
        if kind != "quic":
            await asyncio.sleep(1.6)
            h = await history_entry(A, t)
            if h is not None and not (h.get("error") and "idle timeout" in h["error"]):
                out.violation("idle close is not recorded as an 'idle timeout' error", {"who": who, "record_error": h.get("error"), "states": [s["state"] for s in h["state"]]})
    finally:
        close_t(t)


def close_t(t):
    if "c" in t:
        t["c"].close()
    if "u" in t:
        t["u"].close()


async def late_reply_handler(r, w, origin, info):
    """reads until EOF, waits 2 s, then answers: the reply comes well inside any idle period >= 4 s"""
    while True:
        b = await r.read(65536)
        if not b:
            break
    await asyncio.sleep(2.0)
    w.write(b"LATE-REPLY")
    await w.drain()


async def upload_then_halfclose(out, ports, late_port, T, cfgname, io_name):
    """one direction carries data for longer than the period while the other is silent; then the sender half-closes and the
    peer answers 2 s later: the tunnel must not be closed for idleness (data flowed less than T ago)"""
    out.case()
    who = "http/upload-halfclose cfg=%s io=%s" % (cfgname, io_name)
    try:
        c = await open_conn("127.0.0.1", ports["http"])
        st, _ = await http_connect(c, "127.0.0.1", late_port)
        assert st == 200
    except Exception as e:
        out.inconclusive += 1
        return
    try:
        t0 = now()
        while now() - t0 < T + 1.5:
            c.write(b"u")
            await c.drain()
            await asyncio.sleep(0.4)
        t_last = now()
        c.eof()
        try:
            got = await c.read_all(timeout=T + 3)
        except Exception:
            got = b""
        out.nontrivial(("http", "upload-halfclose", cfgname, io_name))
        if got != b"LATE-REPLY":
            out.violation("tunnel closed for idleness although data was relayed less than the period ago",
                          {"who": who, "period_s": T, "pattern": "client active for T+1.5 s, half-close, origin replies 2 s later", "client_received": got.decode("latin1"), "closed_after_last_byte_s": round(now() - t_last, 2)})
        else:
            out.count("late_replies_delivered")
    finally:
        c.close()


async def stream_after_eof_handler(r, w, origin, info):
    """reads until EOF, then streams one record every 0.5 s for 7 s (longer than the 4 s period it is used with), then closes"""
    while True:
        b = await r.read(65536)
        if not b:
            break
    for i in range(14):
        w.write(b"chunk-%02d;" % i)
        await w.drain()
        await asyncio.sleep(0.5)
    w.close()


async def halfclose_then_stream(out, ports, stream_port, T, cfgname, io_name):
    """the client sends its request and half-closes; the origin then streams for longer than the period: data keeps flowing in one
    direction, so at no moment has the tunnel been idle for T - it must live until the origin is done"""
    out.case()
    who = "http/halfclose-then-stream cfg=%s io=%s" % (cfgname, io_name)
    try:
        c = await open_conn("127.0.0.1", ports["http"])
        st, _ = await http_connect(c, "127.0.0.1", stream_port)
        assert st == 200
    except Exception as e:
        out.inconclusive += 1
        return
    try:
        c.write(b"request")
        await c.drain()
        c.eof()
        t0 = now()
        try:
            got = await c.read_all(timeout=7 + T + 3)
        except Exception:
            got = b""
        out.nontrivial(("http", "halfclose-then-stream", cfgname, io_name))
        want = b"".join(b"chunk-%02d;" % i for i in range(14))
        if got != want:
            out.violation("tunnel closed for idleness although data was relayed less than the period ago",
                          {"who": who, "period_s": T, "pattern": "client half-closes, origin streams a record every 0.5 s for 7 s", "records_received": got.count(b";"), "records_sent": 14, "ended_after_s": round(now() - t0, 2)})
        else:
            out.count("streams_after_halfclose_complete")
    finally:
        c.close()


async def stalled_log_scenario(out, args, wd, oport):
    """the activity stamps must not depend on housekeeping that can block: with an access-log sink that stalled (a FIFO whose
    reader never drains it) and the collector busy with hundreds of ended connections, a tunnel that carries a byte every second
    stays open, and a silent one is still closed after the period"""
    import fcntl
    import os
    T = 3
    fifo = os.path.join(wd, "stalled-access.log")
    os.mkfifo(fifo)
    rfd = os.open(fifo, os.O_RDONLY | os.O_NONBLOCK)
    try:
        fcntl.fcntl(rfd, 1031, 4096)  # F_SETPIPE_SZ
    except OSError:
        pass
    ports = {k: free_port() for k in ("rev", "api")}
    L = Proxy(args.bin, base_cfg([{"name": "rev", "type": "reverse", "bind": "127.0.0.1:%d" % ports["rev"], "target": "127.0.0.1:%d" % oport}], [{"name": "direct"}], [{"target": "direct"}],
                                 metrics_port=ports["api"], timeouts={"idle": T, "udp": T}, access_log={"path": fifo, "format": "json"}), "Lstall", wd)
    try:
        await L.start()
        for i in range(600 if args.thorough else 450):
            try:
                c = await open_conn("127.0.0.1", ports["rev"])
                c.close()
            except Exception:
                break
        await asyncio.sleep(2.5)
        out.case()
        c = await open_conn("127.0.0.1", ports["rev"])
        t = {"c": c, "src": c.local[1], "kind": "rev"}
        t_act = await ping(t, b"s")
        if t_act is None:
            out.inconclusive += 1
            return
        t0 = now()
        alive = True
        while now() - t0 < 3 * T:
            await asyncio.sleep(1.0)
            r = await ping(t, b"t")
            if r is None:
                alive = False
                out.violation("tunnel closed for idleness although data was relayed less than the period ago [access-log sink stalled]",
                              {"period_s": T, "trickle_every_s": 1.0, "closed_after_s": round(now() - t0, 2), "last_activity_s_ago": round(now() - t_act, 2)})
                break
            t_act = r
        out.nontrivial(("rev", "trickle", "log-sink-stalled", "splice"))
        if alive:
            # now silent: closed within the usual window
            try:
                b = await asyncio.wait_for(c.r.read(1), T + 1 + SLACK)
                closed = now() - t_act
                if b != b"":
                    out.inconclusive += 1
                elif closed < T - 0.3:
                    out.violation("idle connection closed before the configured period [access-log sink stalled]", {"period_s": T, "closed_after_s": round(closed, 2)})
            except asyncio.TimeoutError:
                out.violation("idle connection not closed within the period (+1 s tick + slack) [access-log sink stalled]", {"period_s": T, "waited_s": round(now() - t_act, 2)})
            except (ConnectionError, OSError):
                pass
            out.sample({"scenario": "access-log sink stalled", "trickle_kept_open_s": 3 * T, "then_closed": True})
        c.close()
        if not L.alive():
            out.violation("proxy process died", {"proxy": "Lstall", "rc": L.exit_status(), "stderr": L.stderr_tail(600)})
    finally:
        L.kill()
        os.close(rfd)


async def main(args):
    from . import lib as _lib
    _lib.UNIQUE_SRC = True   # records are joined with connections by source port
    out = Out("C13", "c13", "configs {timeouts absent, idle 0/udp 0, idle 2/udp 4, idle 4/udp 2, idle 6/udp 6} x listener kinds {http, socks, reverse-tcp, reverse-udp, socks-udp, UDP over CONNECT with inline frames, CONNECT-over-QUIC} x traffic patterns {silent, trickle just under the period, burst then silence} x io modes; /api/live wiring check and wall-clock close window. distinct = distinct (listener kind, pattern, config, io mode)")
    rng = random.Random(args.seed)
    origin = await TcpOrigin(echo_handler, host="127.0.0.1").start()
    mute = await TcpOrigin(mute_handler, host="127.0.0.1").start()
    MUTE["port"] = mute.port
    utr, upr, uport = await udp_endpoint(lambda: UdpEcho())
    configs = [("absent", None, 600, 600), ("zero", {"idle": 0, "udp": 0}, 0, 0), ("idle2-udp4", {"idle": 2, "udp": 4}, 2, 4), ("idle4-udp2", {"idle": 4, "udp": 2}, 4, 2),
               # a period well above tick + slack: a proxy that only looks every T seconds closes up to T late, which a small T hides
               ("idle6-udp6", {"idle": 6, "udp": 6}, 6, 6)]
    ios = [("splice", {"bufferSize": 65536, "useSplice": True})]
    if args.thorough:
        ios.append(("buffered", {"bufferSize": 4096, "useSplice": False}))
    wd = workdir("c13")
    procs = []
    try:
        jobs = []
        for io_name, io in ios:
            for cname, tmo, t_tcp, t_udp in configs:
                io_cfg = dict(io, bufferSize=4096) if cname == "idle4-udp2" else io   # one proxy with a small buffer (see trickle-full)
                A, C, ports = build(args, tmo, io_cfg, wd, origin.port, uport, cname + io_name)
                procs += [A, C]
                await A.start()
                await C.start()
                for kind in ("http", "socks", "rev", "quic", "socks-udp", "revudp", "http-udp", "http-udpbind", "revmute"):
                    T = t_udp if kind in ("socks-udp", "revudp", "http-udp", "http-udpbind") else t_tcp
                    if kind == "quic":
                        T = t_tcp  # enforced by A on the QUIC stream; C has timeouts disabled
                    if kind == "revmute" and cname != "idle6-udp6":
                        pats = ["fin-late"] if (args.thorough and cname == "idle4-udp2") else []
                    elif cname == "absent":
                        pats = ["wiring-only"]
                    elif cname == "idle6-udp6":
                        pats = ["burst"] if kind in ("http", "socks-udp", "http-udp", "http-udpbind", "rev") else ["fin-late"] if kind == "revmute" else []
                    elif cname == "zero":
                        pats = ["silent"] if (args.thorough or kind in ("http", "revudp")) else []
                    else:
                        pats = ["silent", "trickle", "burst"] if args.thorough else [rng.choice(["silent", "burst"]), "trickle"] if kind in ("http", "socks", "socks-udp", "http-udp") else ["silent"]
                    if cname == "idle4-udp2" and kind in ("http", "rev"):
                        pats = list(pats) + ["trickle-full-4096"]
                    for p in pats:
                        jobs.append((A, ports, kind, p, T, cname, io_name))
        async def run(j):
            A, ports, kind, p, T, cname, io_name = j
            if p == "wiring-only":
                # default (600 s): only the wiring is observed
                out.case()
                try:
                    t = await open_kind(kind, ports, origin.port, uport)
                    await ping(t, b"w")
                    if kind != "quic":
                        e = await live_entry(A, t)
                        if isinstance(e, dict) and e.get("idle_timeout") != 600:
                            out.violation("default idle timeout is not 600 s", {"kind": kind, "live_idle_timeout": e.get("idle_timeout")})
                        out.nontrivial((kind, "wiring", cname, io_name))
                    close_t(t)
                except Exception as e:
                    out.inconclusive += 1
                return
            await scenario(out, A, ports, origin.port, uport, kind, p, T, cname, io_name)
        late = await TcpOrigin(late_reply_handler, host="127.0.0.1").start()
        streamer = await TcpOrigin(stream_after_eof_handler, host="127.0.0.1").start()
        extra = []
        seen_cfg = set()
        for (A, ports, kind, p, T, cname, io_name) in jobs:
            if cname == "idle4-udp2" and (cname, io_name) not in seen_cfg:
                seen_cfg.add((cname, io_name))
                extra.append(upload_then_halfclose(out, ports, late.port, 4, cname, io_name))
                extra.append(halfclose_then_stream(out, ports, streamer.port, 4, cname, io_name))
        extra.append(stalled_log_scenario(out, args, wd, origin.port))
        await asyncio.gather(*([run(j) for j in jobs] + extra))
        await late.stop()
        await streamer.stop()
        for p in procs:
            if not p.alive():
                out.violation("proxy process died", {"proxy": p.name, "rc": p.exit_status(), "stderr": p.stderr_tail(600)})
    finally:
        for p in procs:
            p.cleanup()
        await origin.stop()
        await mute.stop()
        utr.close()
    out.finish()


if __name__ == "__main__":
    run_main(main)
