"""C05 (end-to-end part) — no remote input can crash or wedge the live proxy.
Hostile clients on every listener (handshake prefixes cut at every offset, mutated handshakes, garbage, TLS garbage,
hostile SOCKS-UDP / reverse-UDP / QUIC datagrams, malformed inline RPFM frames) and hostile upstreams answering the
http / socks5 / socks4 connectors (scripted bad status lines, Session-Id values, method selections, replies).  After
every batch the supervisor checks that the process is alive and runs a liveness probe: one good tunnel through every
listener and one API call.  `--bin-asan` runs the same against the AddressSanitizer build."""
import asyncio
import os
import random
import socket
import struct

from .lib import (Out, Proxy, TcpOrigin, addr_v5, base_cfg, client_ssl, echo_handler, free_port, http_connect, http_connect_bytes, http_reply, now, open_conn,
                  run_main, socks4_connect, socks5_connect, tls_client, tls_server, workdir)

USER, PASS = "alice", "s3cret"


def mutate(rng, b):
    b = bytearray(b)
    for _ in range(rng.randrange(1, 4)):
        if not b:
            b = bytearray(rng.randbytes(rng.randrange(1, 9)))
            continue
        k = rng.randrange(8)
        i = rng.randrange(len(b))
        if k == 0:
            b[i] ^= 1 << rng.randrange(8)
        elif k == 1:
            b[i] = rng.choice([0, 1, 2, 3, 4, 5, 0x7F, 0x80, 0xFE, 0xFF, 13, 10, 32, 58])
        elif k == 2:
            del b[i:]
        elif k == 3:
            b[i:i] = rng.randbytes(rng.randrange(1, 7))
        elif k == 4:
            b[i:i] = b[i:i + rng.randrange(1, 20)]
        elif k == 5:
            del b[i]
        elif k == 6 and len(b) >= 2:
            e = rng.choice([0, 1, 0xFF, 0x100, 0x7FFF, 0x8000, 0xFFFF])
            b[i:i + 2] = struct.pack(">H", e)
        else:
            b[i:i] = bytes([rng.choice([97, 0, 255, 32])]) * rng.choice([300, 5000, 70000])
    return bytes(b)


class HostileUpstreams:
    """fake upstream proxies whose answer is picked by the first label of the requested host"""
    HTTP = {
        "st1": b"HTTP/1.1 200\r\n\r\n", "st2": b"HTTP/1.1 99999 x\r\n\r\n", "st3": b"HTTP/1.1 abc x\r\n\r\n", "st4": b"\r\n\r\n", "st5": b"HTTP/1.1 200 OK\r\nX\r\n\r\n",
        "st6": b"HTTP/1.1 200 OK\r\n: \r\n\r\n", "st7": b"HTTP/1.1 200 OK\r\n" + b"A: b\r\n" * 5000 + b"\r\n", "st8": b"HTTP/1.1 200 OK\r\nA: " + b"x" * 200000 + b"\r\n\r\n",
        "st9": b"\xff\xfe\xfd\r\n\r\n", "st10": b"HTTP/1.1 20\r\n\r\n", "st11": b"HTTP/1.1 2\xe2\x82\xac OK\r\n\r\n", "st12": b"HTTP/1.1 \xe2\x82\xac\r\n\r\n", "st13": b"HTTP/1.1 2\r\n\r\n",
        "ch1": b"HTTP/1.1 200 OK\r\nProxy-Channel: quic-datagrams\r\nSession-Id: 7\r\n\r\n", "ch2": b"HTTP/1.1 200 OK\r\nSession-Id: 7\r\nProxy-Channel: x\r\n\r\n",
        "ch3": b"HTTP/1.1 200 OK\r\nProxy-Channel: \r\n\r\n", "ch4": b"HTTP/1.1 200 OK\r\nProxy-Channel: inline\r\nProxy-Channel: quic-datagrams\r\n\r\n", "sid1": b"HTTP/1.1 200 OK\r\nSession-Id: x\r\n\r\n", "sid2": b"HTTP/1.1 200 OK\r\nSession-Id: -1\r\n\r\n",
        "sid3": b"HTTP/1.1 200 OK\r\nSession-Id: 4294967296\r\n\r\n", "sid4": b"HTTP/1.1 200 OK\r\nSession-Id:  7\r\n\r\n", "sid5": b"HTTP/1.1 200 OK\r\nSession-Id: \r\n\r\n",
        "sid6": b"HTTP/1.1 200 OK\r\nSession-Id: 7\r\n\r\nRPFM\0\0\0\x07\0\x03\0\x02\x03\x01axy", "sid7": b"HTTP/1.1 200 OK\r\nSession-Id: 7\r\n\r\nRPFM\0\0\0\x07\xff\xff\xff\xff",
        "sid8": b"HTTP/1.1 200 OK\r\nSession-Id: 7\r\n\r\nXXXX\0\0\0\x07\0\0\0\0", "sid9": b"HTTP/1.1 200 OK\r\nSession-Id: 7\r\n\r\nRPFM\0\0\0\x07\0\x08\0\0\x09\x06\x01\x02\x03\x04\0\x01",
    }
    S5 = {
        "m1": (b"\x05\x02", b""), "m2": (b"\x05\xff", b""), "m3": (b"\x04\x00", b""), "m4": (b"\x05", b""), "m5": (b"\xff\xff", b""), "m6": (b"\x05\x01", b""),
        "r1": (b"\x05\x00", b"\x05\x00\x00\x03\xff" + b"a" * 10), "r2": (b"\x05\x00", b"\x05\x00\x00\x09"), "r3": (b"\x05\x00", b"\x05\x00"), "r4": (b"\x05\x00", b"\x00\x5a\x00\x00\x00\x00\x00\x00"),
        "r5": (b"\x05\x00", b"\x05\x00\x00\x04" + b"\0" * 5), "r6": (b"\x05\x00", b"\x05\x00\x00\x03\x00\x00\x00"), "r7": (b"\x05\x00", b"\x05\x00\x00\x01\x00\x00\x00\x00\x00\x00"),
        "r8": (b"\x05\x00", b"\x05\x00\x00\x03\x05ab\xff\xfec\x00\x35"),
    }
    S4 = {"q1": b"\x00", b"q2": b"", "q3": b"\x04\x5a\0\0\0\0\0\0", "q4": b"\x00\x5a\0\0", "q5": b"\xff" * 8, "q6": b"\x05\x00\x00\x01\0\0\0\0\0\0"}

    def __init__(self):
        self.servers, self.ports = [], {}

    async def start(self):
        for proto, h in (("http", self.h_http), ("socks5", self.h_s5), ("socks4", self.h_s4)):
            s = await TcpOrigin(h, host="127.0.0.1").start()
            self.ports[proto] = s.port
            self.servers.append(s)
        return self

    async def stop(self):
        for s in self.servers:
            await s.stop()

    async def h_http(self, r, w, o, info):
        head = await r.readuntil(b"\r\n\r\n")
        host = head.split(b" ")[1].decode("latin1").split(".")[0]
        w.write(self.HTTP.get(host, b"HTTP/1.1 200 OK\r\n\r\n"))
        await w.drain()
        await asyncio.sleep(0.3)

    async def h_s5(self, r, w, o, info):
        g = await r.readexactly(2)
        await r.readexactly(g[1])
        # the behaviour is keyed by the port the client (proxy) was asked for is unknown here: read on, best effort
        w.write(b"\x05\x00")
        await w.drain()
        h = await r.readexactly(4)
        host = "x"
        if h[3] == 3:
            n = (await r.readexactly(1))[0]
            host = (await r.readexactly(n)).decode("latin1").split(".")[0]
        sel, rep = self.S5.get(host, (b"", b"\x05\x00\x00\x01\0\0\0\0\0\0"))
        w.write(rep)
        await w.drain()
        await asyncio.sleep(0.3)

    async def h_s5_method(self, r, w, o, info):
        """answers the greeting itself in a hostile way (cycled)"""
        g = await r.readexactly(2)
        await r.readexactly(g[1])
        k = list(self.S5.values())[len(o.accepted) % 6][0]
        w.write(k)
        await w.drain()
        await asyncio.sleep(0.3)

    async def h_s4(self, r, w, o, info):
        await r.readexactly(8)
        await r.readuntil(b"\0")
        vals = [v for v in self.S4.values()]
        w.write(vals[len(o.accepted) % len(vals)])
        await w.drain()
        await asyncio.sleep(0.3)


async def liveness(out, px, P, oport, tag, bound=4.0):
    """one good tunnel through every listener + one API call; returns False if the proxy must be considered wedged"""
    ok = True
    if not px.alive():
        return False
    async def tunnel(kind):
        t0 = now()
        try:
            if kind in ("http", "https"):
                c = await open_conn("127.0.0.1", P[kind], tls=client_ssl() if kind == "https" else None)
                st, _ = await http_connect(c, "127.0.0.1", oport)
                good = st == 200
            elif kind in ("socks", "sockstls", "socksauth"):
                c = await open_conn("127.0.0.1", P[kind], tls=client_ssl() if kind == "sockstls" else None)
                rep, _, _ = await socks5_connect(c, "127.0.0.1", oport, auth=(USER, PASS) if kind == "socksauth" else None)
                good = rep == 0
            elif kind == "rev":
                c = await open_conn("127.0.0.1", P["rev"])
                good = True
            else:
                c = await open_conn("127.0.0.1", P["C.http"])
                st, _ = await http_connect(c, "127.0.0.1", oport)
                good = st == 200
            if good:
                c.write(b"alive?")
                await c.drain()
                good = (await c.read_exact(6, timeout=bound)) == b"alive?"
            c.close()
            return kind, good, now() - t0
        except Exception as e:
            return kind, False, now() - t0
    res = await asyncio.gather(*[asyncio.wait_for(tunnel(k), bound + 2) for k in ("http", "https", "socks", "socksauth", "sockstls", "rev", "quic")], return_exceptions=True)
    for r in res:
        out.case()
        if isinstance(r, Exception) or not r[1]:
            kind = "?" if isinstance(r, Exception) else r[0]
            out.violation("after hostile traffic a well-formed tunnel through the %s listener no longer works (proxy alive)" % kind, {"after": tag, "result": repr(r)[:120]})
            ok = False
    try:
        st, _, _ = await px.api("GET", "/status", None, bound)
        if st != 200:
            raise RuntimeError(st)
    except Exception as e:
        out.violation("after hostile traffic the management API no longer answers (proxy alive)", {"after": tag, "error": repr(e)[:100]})
        ok = False
    return ok


async def run_against(out, args, binary, label, rng, passes):
    wd = workdir("c05" + label)
    origin = await TcpOrigin(echo_handler, host="127.0.0.1").start()
    ups = await HostileUpstreams().start()
    s5m = await TcpOrigin(ups.h_s5_method, host="127.0.0.1").start()
    P = {k: free_port() for k in ("http", "https", "socks", "socksauth", "sockstls", "rev", "revudp", "quic", "api", "C.http", "C.api")}
    listeners = [
        {"name": "http", "bind": "127.0.0.1:%d" % P["http"]},
        {"name": "https", "type": "http", "bind": "127.0.0.1:%d" % P["https"], "tls": tls_server()},
        {"name": "socks", "bind": "127.0.0.1:%d" % P["socks"]},
        {"name": "socksauth", "type": "socks", "bind": "127.0.0.1:%d" % P["socksauth"], "auth": {"required": True, "users": [{"username": USER, "password": PASS}]}},
        {"name": "sockstls", "type": "socks", "bind": "127.0.0.1:%d" % P["sockstls"], "tls": tls_server()},
        {"name": "rev", "type": "reverse", "bind": "127.0.0.1:%d" % P["rev"], "target": "127.0.0.1:%d" % origin.port},
        {"name": "revudp", "type": "reverse", "protocol": "udp", "bind": "127.0.0.1:%d" % P["revudp"], "target": "127.0.0.1:%d" % origin.port},
        {"name": "quic", "bind": "127.0.0.1:%d" % P["quic"], "tls": tls_server()},
    ]
    connectors = [{"name": "direct"},
                  {"name": "fh", "type": "http", "server": "127.0.0.1", "port": ups.ports["http"]},
                  {"name": "fs5", "type": "socks", "server": "127.0.0.1", "port": ups.ports["socks5"]},
                  {"name": "fs5m", "type": "socks", "server": "127.0.0.1", "port": s5m.port},
                  {"name": "fs4", "type": "socks", "server": "127.0.0.1", "port": ups.ports["socks4"], "version": 4}]
    rules = [{"filter": "request.target.port == 1001", "target": "fh"}, {"filter": "request.target.port == 1002", "target": "fs5"},
             {"filter": "request.target.port == 1003", "target": "fs4"}, {"filter": "request.target.port == 1004", "target": "fs5m"}, {"target": "direct"}]
    env = {"ASAN_OPTIONS": "halt_on_error=1:abort_on_error=1:detect_leaks=0:log_path=%s/asan" % wd} if label == "asan" else None
    cfg = base_cfg(listeners, connectors, rules, metrics_port=P["api"]) if label != "asan" else base_cfg(listeners, connectors, rules)
    A = Proxy(binary, cfg, "A", wd, env=env)
    C = Proxy(args.bin, base_cfg([{"name": "http", "bind": "127.0.0.1:%d" % P["C.http"]}],
                                 [{"name": "q", "type": "quic", "server": "localhost", "port": P["quic"], "tls": tls_client(), "bind": "127.0.0.1:0"}],
                                 [{"target": "q"}], metrics_port=P["C.api"]), "C", wd)
    if label == "asan":
        # no metrics feature in the ASan build: liveness API call goes to C instead
        A.api = C.api
    valid = {
        "http": http_connect_bytes("127.0.0.1", origin.port),
        "http-udp": http_connect_bytes("0.0.0.0", origin.port, [("Proxy-Protocol", "udp")]),
        "socks5": bytes([5, 1, 0, 5, 1, 0]) + addr_v5("127.0.0.1", origin.port),
        "socks5d": bytes([5, 2, 0, 2, 5, 1, 0]) + addr_v5("some.host.example", origin.port),
        "socks5auth": bytes([5, 1, 2, 1, 5]) + USER.encode() + bytes([6]) + PASS.encode() + bytes([5, 1, 0]) + addr_v5("127.0.0.1", origin.port),
        "socks4": bytes([4, 1]) + struct.pack(">H", origin.port) + bytes([127, 0, 0, 1]) + b"user\0",
        "socks4a": bytes([4, 1]) + struct.pack(">H", origin.port) + bytes([0, 0, 0, 1]) + b"user\0host.example\0",
        "socks5udp": bytes([5, 1, 0, 5, 3, 0]) + addr_v5("0.0.0.0", 0),
    }

    async def send_close(port, data, tls=None, hold=0.0, drip=False):
        try:
            c = await open_conn("127.0.0.1", port, tls=tls, timeout=3)
        except Exception:
            return
        try:
            if drip:
                for i in range(0, min(len(data), 60)):
                    c.write(data[i:i + 1])
                    await c.drain()
                    await asyncio.sleep(0.001)
            elif data:
                c.write(data)
                await c.drain()
            if hold:
                try:
                    await c.read_some(4096, timeout=hold)
                except Exception:
                    pass
        except Exception:
            pass
        finally:
            if rng.random() < 0.3:
                c.abort()
            else:
                c.close()
    try:
        await A.start()
        await C.start()
        if not await liveness(out, A, P, origin.port, "start (%s)" % label):
            out.inconclusive += 1
            return
        for pas in range(passes):
            # ---- batch 1: handshake prefixes cut at every offset, on every matching listener
            jobs = []
            for name, data in valid.items():
                ports = {"http": ["http", "https"], "http-udp": ["http"], "socks5": ["socks", "sockstls"], "socks5d": ["socks"], "socks5auth": ["socksauth"],
                         "socks4": ["socks", "socksauth"], "socks4a": ["socks"], "socks5udp": ["socks"]}[name]
                for lp in ports:
                    tls = client_ssl() if lp in ("https", "sockstls") else None
                    for k in range(0, len(data) + 1, 1 if len(data) < 40 or args.thorough else 3):
                        jobs.append(send_close(P[lp], data[:k], tls))
                        out.case()
                        out.nontrivial((label, "cut", name, lp, k))
            rng.shuffle(jobs)
            for i in range(0, len(jobs), 40):
                await asyncio.gather(*jobs[i:i + 40])
            if not await liveness(out, A, P, origin.port, "handshakes cut at every offset (%s)" % label):
                break
            # ---- batch 2: mutated handshakes, garbage, slow drip, TLS garbage
            jobs = []
            for _ in range(400 if args.thorough else 150):
                name = rng.choice(list(valid))
                lp = rng.choice(["http", "https", "socks", "socksauth", "sockstls", "rev"])
                data = mutate(rng, valid[name]) if rng.random() < 0.8 else rng.randbytes(rng.randrange(0, 200))
                tls = client_ssl() if lp in ("https", "sockstls") and rng.random() < 0.7 else None
                jobs.append(send_close(P[lp], data, tls, hold=rng.choice([0, 0, 0.05]), drip=rng.random() < 0.1))
                out.case()
                out.nontrivial((label, "mut", lp, data[:40]))
            for i in range(0, len(jobs), 40):
                await asyncio.gather(*jobs[i:i + 40])
            if not await liveness(out, A, P, origin.port, "mutated handshakes and garbage (%s)" % label):
                break
            # ---- batch 3: hostile datagrams: SOCKS5 UDP relay port, reverse UDP, QUIC port
            c = await open_conn("127.0.0.1", P["socks"])
            rep, bh, bp = await socks5_connect(c, "0.0.0.0", 0, cmd=3)
            u = socket.socket(socket.AF_INET, socket.SOCK_DGRAM)
            u.bind(("127.0.0.1", 0))
            base = [b"", b"\0", b"\0\0", b"\0\0\0", b"\0\0\0\x03", b"\0\0\0\x01", b"\0\0\0\x04", b"\0\0\0\x03\x05ab", b"\0\0\0\x03\xff" + b"a" * 10, b"\0\0\0\x09abc",
                    b"\0\0\0\x03\x00\x00\x35", b"\0\0\0\x01\x7f\0\0\x01", b"\0\0\0\x03\x03\xff\xfe\xfd\x00\x35x", b"\0\0\0" + addr_v5("127.0.0.1", origin.port) + b"ok"]
            for d in base + [mutate(rng, rng.choice(base)) for _ in range(100)]:
                out.case()
                out.nontrivial((label, "socks-udp", d[:30]))
                try:
                    u.sendto(d[:60000], ("127.0.0.1", bp))
                except OSError:
                    pass
                if rng.random() < 0.1:
                    await asyncio.sleep(0.005)
            # the association may have died on the first bad datagram: open fresh ones for the rest
            for d in base:
                try:
                    c2 = await open_conn("127.0.0.1", P["socks"])
                    rep, bh, bp2 = await socks5_connect(c2, "0.0.0.0", 0, cmd=3)
                    u.sendto(d, ("127.0.0.1", bp2))
                    await asyncio.sleep(0.01)
                    c2.close()
                except Exception:
                    pass
            for _ in range(60):
                d = rng.randbytes(rng.choice([0, 1, 2, 3, 4, 5, 20, 1200]))
                out.case()
                out.nontrivial((label, "udp-garbage", d[:20]))
                u.sendto(d, ("127.0.0.1", P["revudp"]))
                u.sendto(d, ("127.0.0.1", P["quic"]))
                q = bytearray(rng.randbytes(1200))
                q[0] = rng.choice([0xC0, 0xC3, 0xD0, 0xE0, 0xF0, 0x40])   # QUIC long/short header forms
                q[1:5] = rng.choice([b"\0\0\0\1", b"\0\0\0\0", b"\xff\0\0\x1d", b"\xba\xba\xba\xba"])
                u.sendto(bytes(q), ("127.0.0.1", P["quic"]))
            u.close()
            c.close()
            await asyncio.sleep(0.3)
            if not await liveness(out, A, P, origin.port, "hostile datagrams (%s)" % label):
                break
            # ---- batch 4: malformed inline RPFM frames after a valid CONNECT/udp
            frames = [b"XXXX" + b"\0" * 8, b"RPFM\0\0\0\x01\xff\xff\xff\xff", b"RPFM\0\0\0\x01\0\x03\0\x02\x03\x01axy", b"RPFM\0\0\0\x01\0\x02\0\0\x03\x00", b"RPFM\0\0\0\x01\0\x08\0\0\x09\x06\x01\x02\x03\x04\0\x01",
                      b"RPFM\0\0\0\x01\0\x08\0\x01\x01\x05\x01\x02\x03\x04\0\x01z", b"RPFM", b"RPFM\0\0\0\x01\0\x04\0\0\x03\xff\0\x35", b"RPFM\0\0\0\x01\0\x14\0\0\x02\x12" + b"\0" * 18,
                      b"RPFM\0\0\0\x01\0\x05\0\x03\x03\x03a\0\x35abc",
                      # a complete attribute followed by stray bytes / a second record cut short / unknown records
                      b"RPFM\0\0\0\x01\0\x09\0\0\x01\x06\x01\x02\x03\x04\0\x35\x03", b"RPFM\0\0\0\x01\0\x0a\0\0\x01\x06\x01\x02\x03\x04\0\x35\x03\x09",
                      b"RPFM\0\0\0\x01\0\x0b\0\0\x09\x01\x00\x01\x06\x01\x02\x03\x04\0\x35", b"RPFM\0\0\0\x01\0\x03\0\0\x09\x00\x09", b"RPFM\0\0\0\x01\0\x01\0\0\x01"]
            for fr in frames + [mutate(rng, rng.choice(frames)) for _ in range(60)]:
                out.case()
                out.nontrivial((label, "inline-frame", fr[:30]))
                try:
                    c = await open_conn("127.0.0.1", rng.choice([P["http"], P["C.http"]]))
                    c.write(valid["http-udp"])
                    await c.drain()
                    await http_reply(c, timeout=3)
                    c.write(fr[:70000])
                    await c.drain()
                    await asyncio.sleep(0.005)
                    c.close()
                except Exception:
                    pass
            if not await liveness(out, A, P, origin.port, "malformed inline frames (%s)" % label):
                break
            # ---- batch 6: clients that stall (nothing, one byte, half a handshake, half a TLS record) and STAY while others are
            # served: a stalled client may only hurt itself
            held = []
            for lp in ("http", "https", "socks", "socksauth", "sockstls"):
                for pre in (b"", b"\x16", b"\x16\x03\x01\x02\x00\x01\x00\x01\xfc\x03\x03", valid["http"][:9], valid["socks5"][:2]):
                    out.case()
                    out.nontrivial((label, "stall-held", lp, pre[:4]))
                    try:
                        c = await open_conn("127.0.0.1", P[lp], timeout=3)
                        if pre:
                            c.write(pre)
                            await c.drain()
                        held.append(c)
                    except Exception:
                        pass
            await asyncio.sleep(0.3)
            alive_ok = await liveness(out, A, P, origin.port, "clients stalled in their handshake are still connected (%s)" % label)
            for c in held:
                c.close()
            if not alive_ok:
                break
            # ---- batch 5: hostile upstream replies (http / socks5 / socks4 connectors), TCP and UDP requests
            for host in list(ups.HTTP) + list(ups.S5):
                for port in (1001, 1002, 1003, 1004):
                    out.case()
                    out.nontrivial((label, "upstream", host, port))
                    try:
                        c = await open_conn("127.0.0.1", P["socks"])
                        c.write(bytes([5, 1, 0, 5, 1, 0]) + addr_v5(host + ".test", port))
                        await c.drain()
                        try:
                            await c.read_some(4096, timeout=1.0)
                        except Exception:
                            pass
                        c.close()
                        if (host.startswith("sid") or host.startswith("ch")) and port == 1001:
                            # UDP over the http connector: exercises Session-Id and inline frames from the upstream
                            c = await open_conn("127.0.0.1", P["http"])
                            c.write(http_connect_bytes(host + ".test", 1001, [("Proxy-Protocol", "udp")]))
                            await c.drain()
                            try:
                                await c.read_some(4096, timeout=1.0)
                            except Exception:
                                pass
                            c.close()
                    except Exception:
                        pass
            if not await liveness(out, A, P, origin.port, "hostile upstream replies (%s)" % label):
                break
            out.count("passes_completed_" + label)
        if not A.alive():
            rc = A.exit_status()
            tail = A.stderr_tail(1200)
            what = "panic" if "panicked" in tail else "sanitizer report" if "Sanitizer" in tail else "signal"
            site = tail.split("panicked at", 1)[1].strip().split(":")[0][:60] if "panicked at" in tail else ""
            out.violation("hostile traffic terminated the proxy process (%s %s) [%s]" % (what, site, label), {"exit": rc, "stderr": tail[-700:]})
        if label == "asan":
            reports = [f for f in os.listdir(wd) if f.startswith("asan")]
            out.setx("asan_reports", len(reports))
            for f in reports[:3]:
                with open(os.path.join(wd, f)) as fh:
                    txt = fh.read()
                out.violation("AddressSanitizer report under hostile traffic", {"report_head": txt[:800]})
    finally:
        A.kill()
        C.kill()
        await origin.stop()
        await ups.stop()
        await s5m.stop()
        import shutil
        shutil.rmtree(wd, ignore_errors=True)


async def main(args):
    out = Out("C05", "c05-e2e", "hostile clients against the shipped binary: every valid handshake cut at every byte offset on every listener (plain and inside TLS), mutated handshakes, garbage, slow drip, TLS garbage, hostile SOCKS5-UDP / reverse-UDP / QUIC-port datagrams, malformed inline RPFM frames, and scripted hostile upstream answers to the http / socks5 / socks4 connectors; liveness probe (good tunnel through every listener + API call) after every batch; thorough repeats it against the AddressSanitizer build. distinct = distinct (binary, batch, listener, input prefix)")
    rng = random.Random(args.seed)
    await run_against(out, args, args.bin, "ship", rng, 3 if args.thorough else 1)
    if args.thorough and args.bin_asan and os.path.exists(args.bin_asan):
        await run_against(out, args, args.bin_asan, "asan", rng, 1)
    out.finish()


if __name__ == "__main__":
    run_main(main)
