"""End-to-end harness for redproxy-rs: supervisor, config builders, protocol clients, origins,
event log and result reporting.  Python 3 stdlib only (asyncio)."""
import argparse
import asyncio
import json
import os
import random
import shutil
import signal
import socket
import ssl
import struct
import subprocess
import sys
import tempfile
import time

VERIF = os.environ.get("VERIF_DIR") or os.path.dirname(os.path.dirname(os.path.abspath(__file__)))
FIX = os.path.join(VERIF, "harness", "fixtures")


def now():
    return time.monotonic()


# ----------------------------------------------------------------------------- reporting
class Out:
    def __init__(self, prop, monitor, rule):
        self.prop, self.monitor, self.rule = prop, monitor, rule
        self.evaluations = 0
        self.distinct = set()
        self.samples = []
        self.viol = {}
        self.extra = {}
        self.inconclusive = 0

    def case(self, n=1):
        self.evaluations += n

    def nontrivial(self, key):
        self.distinct.add(key if isinstance(key, (str, int, tuple)) else json.dumps(key, sort_keys=True))

    def sample(self, s, cap=6):
        if len(self.samples) < cap:
            self.samples.append(s)

    def violation(self, sig, witness):
        if sig not in self.viol:
            # report at once: the observation must survive even if the run dies later
            print(json.dumps({"t": "viol", "property": self.prop, "monitor": self.monitor, "sig": sig, "count": 1, "witness": witness}, default=str))
            sys.stdout.flush()
        e = self.viol.setdefault(sig, [0, witness])
        e[0] += 1

    def count(self, k, n=1):
        self.extra[k] = self.extra.get(k, 0) + n

    def setx(self, k, v):
        self.extra[k] = v

    def finish(self):
        print(json.dumps({"t": "violcounts", "counts": {sig: n for sig, (n, w) in self.viol.items()}}))
        print(json.dumps({"t": "summary", "property": self.prop, "monitor": self.monitor, "evaluations": self.evaluations,
                          "distinct": len(self.distinct), "rule": self.rule, "samples": self.samples, "extra": self.extra,
                          "inconclusive": self.inconclusive}, default=str))
        sys.stdout.flush()


def parse_args():
    ap = argparse.ArgumentParser()
    ap.add_argument("--seed", type=int, default=1)
    ap.add_argument("--tier", default="quick")
    ap.add_argument("--bin", required=True)
    ap.add_argument("--bin-ship")
    ap.add_argument("--bin-unw")
    ap.add_argument("--bin-dev")
    ap.add_argument("--bin-asan")
    ap.add_argument("--replay")
    ap.add_argument("--keep", action="store_true")
    a, _ = ap.parse_known_args()
    a.thorough = a.tier == "thorough"
    return a


# ----------------------------------------------------------------------------- ports / dirs
_port_rng = random.Random(os.getpid() ^ int(time.time() * 1000))


_given = set()


def free_port(kind="tcp", host="0.0.0.0"):
    """a port that is free for TCP and UDP on every local address (and not handed out before)"""
    for _ in range(500):
        p = _port_rng.randrange(10000, 32000)  # below the ephemeral range (32768..): no clash with outgoing connections or bind(0) users
        if p in _given:
            continue
        try:
            for fam, addr in ((socket.AF_INET, "0.0.0.0"), (socket.AF_INET6, "::")):
                for typ in (socket.SOCK_STREAM, socket.SOCK_DGRAM):
                    s = socket.socket(fam, typ)
                    try:
                        if fam == socket.AF_INET6:
                            s.setsockopt(socket.IPPROTO_IPV6, socket.IPV6_V6ONLY, 1)
                        s.bind((addr, p))
                    finally:
                        s.close()
            _given.add(p)
            return p
        except OSError:
            continue
    raise RuntimeError("no free port")


def workdir(tag):
    base = os.path.join(VERIF, "target", "run")
    os.makedirs(base, exist_ok=True)
    return tempfile.mkdtemp(prefix="%s-%d-" % (tag, os.getpid()), dir=base)


# ----------------------------------------------------------------------------- proxy supervisor
class Proxy:
    """One redproxy-rs process started from a generated configuration."""

    def __init__(self, binary, cfg, name="A", wd=None, log="warn", env=None):
        self.binary, self.cfg, self.name = binary, cfg, name
        self.wd = wd or workdir("px" + name)
        self.cfg_path = os.path.join(self.wd, "config-%s.yaml" % name)
        self.log_level = log
        self.proc = None
        self.env = env
        self.stderr_path = os.path.join(self.wd, "stderr-%s.log" % name)
        self.starts = 0

    def write_cfg(self):
        with open(self.cfg_path, "w") as f:
            json.dump(self.cfg, f, indent=1)  # YAML is a superset of JSON

    def tcp_ports(self):
        ports = []
        for l in self.cfg.get("listeners", []):
            proto = l.get("protocol", "tcp")
            t = l.get("type", l.get("name"))
            if t in ("http", "socks") or (t == "reverse" and proto == "tcp"):
                h, p = l["bind"].rsplit(":", 1)
                ports.append((h.strip("[]"), int(p)))
        m = self.cfg.get("metrics")
        if m:
            h, p = m["bind"].rsplit(":", 1)
            ports.append((h, int(p)))
        return ports

    async def start(self, wait=True, timeout=15.0):
        self.write_cfg()
        self.starts += 1
        err = open(self.stderr_path, "ab")
        env = dict(os.environ)
        env.pop("REDPROXY_VERIF_INPROC", None)
        env.pop("RUST_LOG", None)
        env["RUST_BACKTRACE"] = "0"
        if self.env:
            env.update(self.env)
        self.proc = subprocess.Popen([self.binary, "-c", self.cfg_path, "-l", self.log_level], cwd=self.wd,
                                     stdout=err, stderr=err, stdin=subprocess.DEVNULL, env=env)
        err.close()
        if wait:
            await self.wait_ready(timeout)
        return self

    async def wait_ready(self, timeout=15.0):
        t0 = now()
        pending = list(self.tcp_ports())
        while pending and now() - t0 < timeout:
            if self.proc.poll() is not None:
                raise RuntimeError("proxy %s exited at startup rc=%s: %s" % (self.name, self.proc.returncode, self.stderr_tail()))
            h, p = pending[0]
            try:
                r, w = await asyncio.wait_for(asyncio.open_connection(h if h != "0.0.0.0" else "127.0.0.1", p), 1.0)
                w.close()
                pending.pop(0)
            except (OSError, asyncio.TimeoutError):
                await asyncio.sleep(0.03)
        if pending:
            raise RuntimeError("proxy %s not ready on %s: %s" % (self.name, pending, self.stderr_tail()))
        # UDP / QUIC listeners bind before the TCP ones finish (listen() is sequential over a HashMap, so
        # give the remaining sockets a moment)
        await asyncio.sleep(0.15)

    def alive(self):
        return self.proc is not None and self.proc.poll() is None

    def exit_status(self):
        return None if self.proc is None else self.proc.poll()

    def stderr_tail(self, n=1500):
        try:
            with open(self.stderr_path, "rb") as f:
                return f.read()[-n:].decode("utf8", "replace")
        except OSError:
            return ""

    def signal(self, sig):
        if self.alive():
            self.proc.send_signal(sig)

    def kill(self):
        if self.proc is not None:
            if self.proc.poll() is None:
                try:
                    self.proc.send_signal(signal.SIGCONT)
                    self.proc.kill()
                except OSError:
                    pass
            try:
                self.proc.wait(5)
            except Exception:
                pass

    def cpu_seconds(self):
        try:
            with open("/proc/%d/stat" % self.proc.pid) as f:
                parts = f.read().rsplit(")", 1)[1].split()
            return (int(parts[11]) + int(parts[12])) / os.sysconf("SC_CLK_TCK")
        except Exception:
            return 0.0

    def cleanup(self):
        self.kill()
        shutil.rmtree(self.wd, ignore_errors=True)

    # ---- management API
    async def api(self, method, path, body=None, timeout=5.0):
        h, p = self.cfg["metrics"]["bind"].rsplit(":", 1)
        return await http_call("127.0.0.1", int(p), method, "/api" + path, body, timeout)

    async def api_json(self, path, timeout=5.0):
        st, _, body = await self.api("GET", path, None, timeout)
        if st != 200:
            raise RuntimeError("api %s -> %s" % (path, st))
        return json.loads(body)


async def http_call(host, port, method, path, body=None, timeout=5.0):
    async def go():
        r, w = await asyncio.open_connection(host, port)
        try:
            data = b"" if body is None else (body if isinstance(body, bytes) else json.dumps(body).encode())
            req = "%s %s HTTP/1.1\r\nHost: x\r\nConnection: close\r\n" % (method, path)
            if body is not None:
                req += "Content-Type: application/json\r\nContent-Length: %d\r\n" % len(data)
            w.write(req.encode() + b"\r\n" + data)
            await w.drain()
            raw = await r.read(-1)
        finally:
            w.close()
        head, _, rest = raw.partition(b"\r\n\r\n")
        lines = head.split(b"\r\n")
        status = int(lines[0].split()[1])
        hdrs = {}
        for l in lines[1:]:
            k, _, v = l.partition(b":")
            hdrs[k.strip().lower().decode()] = v.strip().decode()
        if hdrs.get("transfer-encoding", "").lower() == "chunked":
            out = b""
            while rest:
                ln, _, rest = rest.partition(b"\r\n")
                n = int(ln.split(b";")[0] or b"0", 16)
                if n == 0:
                    break
                out += rest[:n]
                rest = rest[n + 2:]
            rest = out
        return status, hdrs, rest
    return await asyncio.wait_for(go(), timeout)


# ----------------------------------------------------------------------------- config builders
def fx(name):
    return os.path.join(FIX, name)


def tls_server(client_ca=None, required=False, cert="server"):
    d = {"cert": fx(cert + ".crt"), "key": fx(cert + ".key")}
    if client_ca:
        d["client"] = {"ca": fx(client_ca + ".crt"), "required": required}
    return d


def tls_client(ca="ca", insecure=False, auth=None):
    d = {"insecure": insecure}
    if ca:
        d["ca"] = fx(ca + ".crt")
    if auth:
        d["auth"] = {"cert": fx(auth + ".crt"), "key": fx(auth + ".key")}
    return d


def base_cfg(listeners, connectors, rules, metrics_port=None, access_log=None, timeouts=None, io=None, history=100):
    cfg = {"apiVersion": "v1alpha", "kind": "ProxyDefinition", "listeners": listeners, "connectors": connectors, "rules": rules}
    if metrics_port:
        cfg["metrics"] = {"bind": "127.0.0.1:%d" % metrics_port, "ui": None, "historySize": history}
    if access_log:
        cfg["accessLog"] = access_log
    if timeouts is not None:
        cfg["timeouts"] = timeouts
    if io is not None:
        cfg["ioParams"] = io
    return cfg


# ----------------------------------------------------------------------------- protocol clients
class ProtoError(Exception):
    pass


def client_ssl(ca="ca", cert=None, verify=True):
    ctx = ssl.SSLContext(ssl.PROTOCOL_TLS_CLIENT)
    if verify:
        ctx.load_verify_locations(fx(ca + ".crt"))
        ctx.check_hostname = True
    else:
        ctx.check_hostname = False
        ctx.verify_mode = ssl.CERT_NONE
    if cert:
        ctx.load_cert_chain(fx(cert + ".crt"), fx(cert + ".key"))
    return ctx


class Conn:
    """A client connection with a push-back buffer (bytes read beyond a handshake reply stay readable)."""

    def __init__(self, r, w):
        self.r, self.w = r, w
        self.buf = b""
        self.sent_handshake = b""
        self.recv_handshake = b""
        self.local = w.get_extra_info("sockname")

    async def read_some(self, n=65536, timeout=None):
        if self.buf:
            b, self.buf = self.buf[:n], self.buf[n:]
            return b
        if timeout is None:
            return await self.r.read(n)
        return await asyncio.wait_for(self.r.read(n), timeout)

    async def read_exact(self, n, timeout=10.0):
        out = b""
        while len(out) < n:
            b = await self.read_some(n - len(out), timeout)
            if not b:
                raise ProtoError("EOF after %d of %d bytes: %r" % (len(out), n, out[:40]))
            out += b
        return out

    async def read_until(self, sep, limit=65536, timeout=10.0):
        out = b""
        while sep not in out:
            b = await self.read_some(4096, timeout)
            if not b:
                raise ProtoError("EOF before %r: %r" % (sep, out[:80]))
            out += b
            if len(out) > limit:
                raise ProtoError("limit")
        i = out.index(sep) + len(sep)
        self.buf = out[i:] + self.buf
        return out[:i]

    async def read_all(self, timeout=10.0):
        out = b""
        while True:
            b = await self.read_some(65536, timeout)
            if not b:
                return out
            out += b

    def write(self, b):
        self.w.write(b)

    async def drain(self):
        await self.w.drain()

    def eof(self):
        try:
            self.w.write_eof()
        except (OSError, NotImplementedError):
            pass

    def close(self):
        try:
            self.w.close()
        except Exception:
            pass

    def abort(self):
        """RST"""
        try:
            s = self.w.get_extra_info("socket")
            s.setsockopt(socket.SOL_SOCKET, socket.SO_LINGER, struct.pack("ii", 1, 0))
        except Exception:
            pass
        try:
            self.w.transport.abort()
        except Exception:
            pass


# monitors that identify a connection by its source port in the proxy's records set this: every client connection then gets
# a source port that no other connection of this process ever uses (the kernel would otherwise reuse a port for another
# destination at once, and for the same destination later)
UNIQUE_SRC = False


async def open_conn(host, port, tls=None, local=None, timeout=5.0, rcvbuf=None):
    kw = {}
    if local is None and UNIQUE_SRC:
        local = ("::1" if ":" in host else "127.0.0.1", free_port())
    if tls is not None:
        kw["ssl"] = tls
        kw["server_hostname"] = "localhost"
    if local is not None:
        kw["local_addr"] = local
    r, w = await asyncio.wait_for(asyncio.open_connection(host, port, limit=1 << 20, **kw), timeout)
    if rcvbuf:
        w.get_extra_info("socket").setsockopt(socket.SOL_SOCKET, socket.SO_RCVBUF, rcvbuf)
    return Conn(r, w)


def addr_v5(host, port):
    try:
        b = socket.inet_pton(socket.AF_INET, host)
        return b"\x01" + b + struct.pack(">H", port)
    except OSError:
        pass
    try:
        b = socket.inet_pton(socket.AF_INET6, host.strip("[]"))
        return b"\x04" + b + struct.pack(">H", port)
    except OSError:
        pass
    hb = host if isinstance(host, bytes) else host.encode()
    return b"\x03" + bytes([len(hb)]) + hb + struct.pack(">H", port)


def parse_addr_v5(b, off=0):
    """returns (host, port, next_offset)"""
    t = b[off]
    if t == 1:
        return socket.inet_ntop(socket.AF_INET, b[off + 1:off + 5]), struct.unpack(">H", b[off + 5:off + 7])[0], off + 7
    if t == 4:
        return socket.inet_ntop(socket.AF_INET6, b[off + 1:off + 17]), struct.unpack(">H", b[off + 17:off + 19])[0], off + 19
    if t == 3:
        n = b[off + 1]
        return b[off + 2:off + 2 + n].decode("latin1"), struct.unpack(">H", b[off + 2 + n:off + 4 + n])[0], off + 4 + n
    raise ProtoError("bad atyp %d" % t)


def http_connect_bytes(host, port, headers=()):
    hp = ("[%s]:%d" % (host, port)) if ":" in host else "%s:%d" % (host, port)
    s = "CONNECT %s HTTP/1.1\r\nHost: %s\r\n" % (hp, hp)
    for k, v in headers:
        s += "%s: %s\r\n" % (k, v)
    return (s + "\r\n").encode("latin1")


async def http_reply(c, timeout=10.0):
    head = await c.read_until(b"\r\n\r\n", timeout=timeout)
    c.recv_handshake += head
    lines = head[:-4].split(b"\r\n")
    parts = lines[0].split(b" ", 2)
    if len(parts) < 2 or not parts[0].startswith(b"HTTP/"):
        raise ProtoError("bad status line %r" % lines[0])
    hdrs = {}
    for l in lines[1:]:
        k, _, v = l.partition(b":")
        hdrs[k.strip().lower().decode("latin1")] = v.strip().decode("latin1")
    return int(parts[1]), hdrs


async def http_connect(c, host, port, early=b"", headers=(), split=None):
    """send CONNECT (+ early data glued to it); returns (status, headers)"""
    req = http_connect_bytes(host, port, headers)
    c.sent_handshake += req
    await send_split(c, req + early, split)
    return await http_reply(c)


async def send_split(c, data, split=None):
    if not split:
        c.write(data)
        await c.drain()
        return
    # split: list of cut offsets; tiny pause between segments so that they travel separately
    last = 0
    for cut in list(split) + [len(data)]:
        if cut > last:
            c.write(data[last:cut])
            await c.drain()
            await asyncio.sleep(0.002)
            last = cut


async def socks5_connect(c, host, port, auth=None, early=b"", cmd=1, methods=None, split=None):
    """full SOCKS5 client; returns (rep, bound_host, bound_port). auth=(user, pass) or None"""
    if methods is None:
        methods = [0, 2] if auth else [0]
    hello = bytes([5, len(methods)] + list(methods))
    req = bytes([5, cmd, 0]) + addr_v5(host, port)
    sub = b""
    if auth is not None:
        u, p = [x if isinstance(x, bytes) else x.encode() for x in auth]
        sub = bytes([1, len(u)]) + u + bytes([len(p)]) + p
    # pipelining everything is legal for a client that knows what the server will pick; do it stepwise by default
    c.write(hello)
    c.sent_handshake += hello
    await c.drain()
    sel = await c.read_exact(2)
    c.recv_handshake += sel
    if sel[0] != 5:
        raise ProtoError("bad method selection %r" % sel)
    if sel[1] == 0xFF:
        return ("no-method", None, None)
    if sel[1] == 2:
        if auth is None:
            raise ProtoError("server wants auth")
        c.write(sub)
        c.sent_handshake += sub
        await c.drain()
        st = await c.read_exact(2)
        c.recv_handshake += st
    c.sent_handshake += req
    await send_split(c, req + early, split)
    head = await c.read_exact(4)
    if head[0] != 5:
        raise ProtoError("bad reply %r" % head)
    if head[3] == 1:
        rest = await c.read_exact(6)
    elif head[3] == 4:
        rest = await c.read_exact(18)
    elif head[3] == 3:
        n = await c.read_exact(1)
        rest = n + await c.read_exact(n[0] + 2)
    else:
        raise ProtoError("bad atyp in reply %r" % head)
    c.recv_handshake += head + rest
    h, p, _ = parse_addr_v5(head[3:] + rest)
    return (head[1], h, p)


async def socks4_connect(c, host, port, user=b"", early=b"", cmd=1, split=None):
    try:
        ip = socket.inet_pton(socket.AF_INET, host)
        req = bytes([4, cmd]) + struct.pack(">H", port) + ip + user + b"\0"
    except OSError:
        hb = host if isinstance(host, bytes) else host.encode()
        req = bytes([4, cmd]) + struct.pack(">H", port) + b"\0\0\0\x01" + user + b"\0" + hb + b"\0"
    c.sent_handshake += req
    await send_split(c, req + early, split)
    rep = await c.read_exact(8)
    c.recv_handshake += rep
    if rep[0] != 0:
        raise ProtoError("bad socks4 reply %r" % rep)
    return rep[1]


# ----------------------------------------------------------------------------- payloads
def keystream(seed, ident, direction, n):
    return random.Random("%s/%s/%s" % (seed, ident, direction)).randbytes(n)


MAGIC = b"\xf5VRF"


def header(ident):
    return MAGIC + struct.pack(">Q", ident) + b"\x00\x00\x00\x00"


HDR = 16


def parse_header(b):
    if len(b) >= HDR and b[:4] == MAGIC:
        return struct.unpack(">Q", b[4:12])[0]
    return None


def first_diff(a, b):
    n = min(len(a), len(b))
    if a[:n] == b[:n]:
        return n if len(a) != len(b) else -1
    lo, hi = 0, n
    while hi - lo > 1:
        mid = (lo + hi) // 2
        if a[:mid] == b[:mid]:
            lo = mid
        else:
            hi = mid
    return lo


def classify_mismatch(got, want, others=()):
    """describe how a received stream deviates from the sent one"""
    if got == want:
        return None
    d = first_diff(got, want)
    if len(got) < len(want) and want.startswith(got):
        return {"class": "truncated", "received": len(got), "sent": len(want)}
    if len(got) > len(want) and got.startswith(want):
        extra = got[len(want):]
        return {"class": "extra-bytes-after-end", "received": len(got), "sent": len(want), "extra_head": extra[:32].hex()}
    window = got[d:d + 24]
    info = {"class": "corrupted", "offset": d, "received": len(got), "sent": len(want), "got": got[d:d + 16].hex(), "want": want[d:d + 16].hex()}
    if len(window) >= 8:
        k = want.find(window, max(0, d - 70000), d + 70000)
        if k >= 0 and k != d:
            info["class"] = "lost-bytes" if k > d else "duplicated-bytes"
            info["shift"] = k - d
        else:
            for name, o in others:
                if o.find(window) >= 0:
                    info["class"] = "foreign-bytes"
                    info["from"] = name
                    break
    return info


# ----------------------------------------------------------------------------- origins
class TcpOrigin:
    """TCP origin whose behaviour per accepted connection is a coroutine handler(reader, writer, origin, info)."""

    def __init__(self, handler, host="0.0.0.0", port=None):
        self.handler = handler
        self.host = host
        self.port = port or free_port()
        self.server = None
        self.accepted = []
        self.tasks = set()

    async def start(self):
        self.server = await asyncio.start_server(self._on, self.host, self.port, limit=1 << 20, backlog=512)
        return self

    async def _on(self, r, w):
        info = {"t": now(), "peer": w.get_extra_info("peername"), "local": w.get_extra_info("sockname"), "n": len(self.accepted)}
        self.accepted.append(info)
        t = asyncio.current_task()
        self.tasks.add(t)
        try:
            await self.handler(r, w, self, info)
        except (ConnectionError, asyncio.IncompleteReadError, OSError) as e:
            info["error"] = repr(e)
        finally:
            self.tasks.discard(t)
            try:
                w.close()
            except Exception:
                pass

    async def stop(self):
        if self.server:
            self.server.close()
            try:
                await asyncio.wait_for(self.server.wait_closed(), 2)
            except Exception:
                pass
        for t in list(self.tasks):
            t.cancel()


async def echo_handler(r, w, origin, info):
    while True:
        b = await r.read(65536)
        if not b:
            break
        w.write(b)
        await w.drain()
    try:
        w.write_eof()
    except OSError:
        pass


class UdpEcho(asyncio.DatagramProtocol):
    def __init__(self, tag=b""):
        self.tag = tag
        self.got = []

    def connection_made(self, transport):
        self.transport = transport

    def datagram_received(self, data, addr):
        self.got.append((now(), addr, data))
        self.transport.sendto(data, addr)


async def udp_endpoint(proto_factory, host="127.0.0.1", port=None, family=socket.AF_INET):
    loop = asyncio.get_running_loop()
    port = port or free_port("udp", host if family == socket.AF_INET else "127.0.0.1")
    sock = socket.socket(family, socket.SOCK_DGRAM)
    sock.setsockopt(socket.SOL_SOCKET, socket.SO_REUSEADDR, 1)
    sock.setsockopt(socket.SOL_SOCKET, socket.SO_RCVBUF, 8 << 20)
    sock.bind((host, port))
    tr, pr = await loop.create_datagram_endpoint(proto_factory, sock=sock)
    return tr, pr, port


def run_main(coro_fn):
    """entry point helper: runs coro_fn(args) with a last-resort exception report as harness error"""
    args = parse_args()
    try:
        asyncio.run(coro_fn(args))
    except Exception as e:  # harness error, never a verdict
        import traceback
        traceback.print_exc()
        sys.exit(3)
