"""C12 (end-to-end part) - segmentation with REAL silence between the segments.
The in-process monitor chooses where a message is cut; time does not pass there. Here the same handshakes reach the shipped
binary over sockets in two segments separated by a pause (fractions of a second up to longer than any plausible internal timer),
cut inside the request line, inside header lines, inside a SOCKS5 host name, and - on the connector side - inside the upstream's
reply. Oracle: the outcome is the one of the unsegmented run: same reply, same tunnel, the payload pipelined behind the handshake
arrives at the origin unchanged and is echoed back; nothing of the handshake is lost, fabricated or read as something else."""
import asyncio
import random
import struct

from .lib import Out, Proxy, TcpOrigin, addr_v5, base_cfg, echo_handler, free_port, keystream, now, open_conn, run_main, workdir


def http_head(port, extra=()):
    h = "CONNECT 127.0.0.1:%d HTTP/1.1\r\nHost: 127.0.0.1:%d\r\n" % (port, port)
    for k, v in extra:
        h += "%s: %s\r\n" % (k, v)
    return (h + "\r\n").encode()


async def main(args):
    out = Out("C12", "c12-e2e", "handshakes (HTTP CONNECT with ordinary and bait header values, SOCKS5 with a domain name, SOCKS5 user/password, SOCKS4a) sent to the shipped binary in two segments with a pause of {0.3, 1.2, 6} s (thorough: also 11 and 31 s) between them, cut inside the request line, inside and between header lines, inside the host name; upstream proxies (http, socks5) that answer in two segments with the same pauses; payload pipelined behind the handshake. distinct = distinct (protocol, cut class, pause)")
    rng = random.Random(args.seed)
    wd = workdir("c12")
    origin = await TcpOrigin(echo_handler, host="127.0.0.1").start()
    gaps = [0.3, 1.2, 6.0] + ([11.0, 31.0] if args.thorough else [])
    up_plan = {}   # port -> (cut, gap) for the fake upstreams

    async def up_tail(r, w, reply, port):
        cut, gap = up_plan.get(port, (None, 0))
        if cut:
            w.write(reply[:cut])
            await w.drain()
            await asyncio.sleep(gap)
            w.write(reply[cut:])
        else:
            w.write(reply)
        await w.drain()
        await echo_handler(r, w, None, None)

    async def fake_http(r, w, o, info):
        head = await r.readuntil(b"\r\n\r\n")
        await up_tail(r, w, b"HTTP/1.1 200 Connection established\r\nVia: 1.1 upstream.example\r\nX-Note: nothing to see\r\n\r\n", int(head.split(b" ")[1].rsplit(b":", 1)[1]))

    async def fake_socks(r, w, o, info):
        g = await r.readexactly(2)
        await r.readexactly(g[1])
        w.write(b"\x05\x00")
        await w.drain()
        h = await r.readexactly(4)
        alen = {1: 4, 4: 16}.get(h[3]) or (await r.readexactly(1))[0]
        rest = await r.readexactly(alen + 2)
        await up_tail(r, w, b"\x05\x00\x00\x03\x10upstream.example\x1f\x90", struct.unpack(">H", rest[-2:])[0])
    hup = await TcpOrigin(fake_http, host="127.0.0.1").start()
    sup = await TcpOrigin(fake_socks, host="127.0.0.1").start()
    P = {k: free_port() for k in ("http", "socks", "socksauth", "api")}
    listeners = [{"name": "http", "bind": "127.0.0.1:%d" % P["http"]}, {"name": "socks", "bind": "127.0.0.1:%d" % P["socks"]},
                 {"name": "socksauth", "type": "socks", "bind": "127.0.0.1:%d" % P["socksauth"], "auth": {"required": True, "users": [{"username": "alice", "password": "wonderland"}]}}]
    connectors = [{"name": "direct"}, {"name": "hup", "type": "http", "server": "127.0.0.1", "port": hup.port}, {"name": "sup", "type": "socks", "server": "127.0.0.1", "port": sup.port}]
    rules = [{"filter": "request.target.port >= 5000 && request.target.port < 5500", "target": "hup"}, {"filter": "request.target.port >= 5500 && request.target.port < 6000", "target": "sup"}, {"target": "direct"}]
    A = Proxy(args.bin, base_cfg(listeners, connectors, rules, metrics_port=P["api"], timeouts={"idle": 600, "udp": 600}), "A", wd)
    uid = [0]

    async def run_case(proto, cls, gap, port_l, first, second, reply_len, reply_ok):
        """first/second: the two segments of handshake + pipelined payload; reply_ok(bytes) judges the proxy's reply"""
        out.case()
        uid[0] += 1
        payload = keystream(args.seed, uid[0], "c2s", 300)
        who = "%s, cut %s, %.1f s of silence" % (proto, cls, gap)
        c = await open_conn("127.0.0.1", port_l)
        try:
            c.write(first)
            await c.drain()
            await asyncio.sleep(gap)
            c.write(second + payload)
            await c.drain()
            try:
                if reply_len < 0:
                    # SOCKS5: -reply_len bytes of negotiation replies, then a reply whose length depends on the bound address type
                    rep = await c.read_exact(-reply_len + 4, timeout=20)
                    atyp = rep[-1]
                    n = {1: 4, 4: 16}.get(atyp)
                    if n is None:
                        n = (await c.read_exact(1, timeout=20))[0]
                    await c.read_exact(n + 2, timeout=20)
                else:
                    rep = await c.read_exact(reply_len, timeout=20)
            except Exception as e:
                out.violation("handshake that arrives in two segments with silence in between gets no (complete) reply: %s" % proto, {"case": who, "error": repr(e)[:120]})
                return
            if not reply_ok(rep):
                out.violation("handshake that arrives in two segments with silence in between is answered differently from the unsegmented one: %s" % proto, {"case": who, "reply": rep[:80].decode("latin1")})
                return
            try:
                echo = await c.read_exact(len(payload), timeout=20)
            except Exception as e:
                echo = b""
            if echo != payload:
                out.violation("payload pipelined behind a handshake that arrived in two segments is not relayed unchanged: %s" % proto, {"case": who, "echoed": len(echo), "sent": len(payload)})
            out.nontrivial((proto, cls, gap))
        finally:
            c.close()

    try:
        await A.start()
        await asyncio.sleep(0.2)
        jobs = []
        http_ok = lambda rep: rep.startswith(b"HTTP/1.1 200")
        REPLY_H = len(b"HTTP/1.1 200 Connection established\r\n\r\n")
        for gap in gaps:
            # ---- HTTP CONNECT, listener side
            bait = [("X-Comment", "do not send Proxy-Protocol: udp"), ("X-Other", "CONNECT 10.0.0.1:1 HTTP/1.1")]
            head = http_head(origin.port, bait)
            cuts = {"inside the method": 1, "inside the request target": 12, "inside the version": head.index(b"HTTP/1.1") + 4, "between CR and LF": head.index(b"\r\n") + 1,
                    "inside a header name": head.index(b"Host") + 2, "inside a header value, before the bait": head.index(b"do not send ") + len(b"do not send "),
                    "inside a header value": head.index(b"X-Other: CONNECT ") + len(b"X-Other: CONNECT "), "before the blank line": len(head) - 2, "inside the blank line": len(head) - 1}
            for cls, k in cuts.items():
                jobs.append(run_case("http CONNECT", cls, gap, P["http"], head[:k], head[k:], REPLY_H, http_ok))
            # ---- SOCKS5 with a domain name
            req = bytes([5, 1, 0]) + bytes([5, 1, 0, 3, 9]) + b"localhost" + struct.pack(">H", origin.port)
            for cls, k in {"inside the greeting": 2, "before the length byte": 7, "after the length byte": 8, "inside the host name": 12, "inside the port": len(req) - 1}.items():
                jobs.append(run_case("socks5 (domain)", cls, gap, P["socks"], req[:k], req[k:], -2, lambda rep: rep[:2] == b"\x05\x00" and rep[2:4] == b"\x05\x00"))
            # ---- SOCKS5 user/password
            req = bytes([5, 1, 2]) + bytes([1, 5]) + b"alice" + bytes([10]) + b"wonderland" + bytes([5, 1, 0]) + addr_v5("127.0.0.1", origin.port)
            for cls, k in {"inside the user name": 7, "inside the password": 15, "between sub-negotiation and request": 3 + 2 + 5 + 1 + 10}.items():
                jobs.append(run_case("socks5 (user/password)", cls, gap, P["socksauth"], req[:k], req[k:], -4, lambda rep: rep[:2] == b"\x05\x02" and rep[2:4] == b"\x01\x00" and rep[4:6] == b"\x05\x00"))
            # ---- SOCKS4a
            req = bytes([4, 1]) + struct.pack(">H", origin.port) + bytes([0, 0, 0, 1]) + b"user\0" + b"localhost\0"
            for cls, k in {"inside the user id": 10, "inside the host name": 17}.items():
                jobs.append(run_case("socks4a", cls, gap, P["socks"], req[:k], req[k:], 8, lambda rep: rep[:2] == b"\x00\x5a"))
            # ---- connector side: the upstream's reply comes in two segments
            hrep = b"HTTP/1.1 200 Connection established\r\nVia: 1.1 upstream.example\r\nX-Note: nothing to see\r\n\r\n"
            for i, (cls, k) in enumerate({"inside the status line": 14, "inside a header line": hrep.index(b"upstream") + 3, "between header lines": hrep.index(b"X-Note"), "inside the blank line": len(hrep) - 1}.items()):
                port = 5000 + len(up_plan)
                up_plan[port] = (k, gap)
                h = http_head(port)
                jobs.append(run_case("http connector (upstream reply)", cls, gap, P["http"], h, b"", REPLY_H, http_ok))
            srep_len = len(b"\x05\x00\x00\x03\x10upstream.example\x1f\x90")
            for cls, k in {"inside the reply head": 2, "after the length byte": 5, "inside the bound host name": 11, "inside the bound port": srep_len - 1}.items():
                port = 5500 + len(up_plan)
                up_plan[port] = (k, gap)
                h = http_head(port)
                jobs.append(run_case("socks5 connector (upstream reply)", cls, gap, P["http"], h, b"", REPLY_H, http_ok))
        rng.shuffle(jobs)
        for i in range(0, len(jobs), 48):
            await asyncio.gather(*jobs[i:i + 48])
        if not A.alive():
            out.violation("proxy process died", {"proxy": "A", "stderr": A.stderr_tail(400)})
    finally:
        A.kill()
        await origin.stop()
        await hup.stop()
        await sup.stop()
    out.finish()


if __name__ == "__main__":
    run_main(main)
