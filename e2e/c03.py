"""C03 (end-to-end part) — the destination survives the real chain listener -> rules -> connector -> next proxy.
Proxy A has one http and one socks listener per upstream connector kind (http, https, socks5, socks4, socks5+tls, quic), all
pointing at proxy B.  Raw clients name destinations (host strings of many classes x a port that is unique per request) in
HTTP CONNECT, SOCKS5 and SOCKS4a.  Nothing has to connect: the verdict is read from the two proxies' own records.
  * what A recorded as the target (what its rules were evaluated on) equals what the client asked for, byte for byte;
  * what B recorded for that port (what A asked the next hop for) equals it too, or B never heard of the request (refused);
  * B never records a destination that no client asked for (a re-split or re-interpreted destination shows up as one);
  * destinations every protocol on the way can represent must arrive at B."""
import asyncio
import random
import socket
import struct

from . import lib
from .lib import Out, Proxy, addr_v5, base_cfg, free_port, now, open_conn, run_main, tls_client, tls_server, workdir

CONNECTORS = ["h", "hs", "s5", "s4", "stls", "q"]


def host_pool(rng):
    lab63 = "a" * 63
    hosts = [
        ("plain", b"localhost"), ("plain", b"LocalHost"), ("plain", b"a"), ("plain", b"a.b.c.example"), ("plain", b"x-1_y.example"),
        ("plain", (lab63 + "." + lab63 + ".example").encode()), ("plain", ((lab63 + ".") * 3 + "a" * 61).encode()),   # 253 bytes
        ("long", ((lab63 + ".") * 3 + "a" * 63).encode()),     # 255 bytes
        ("plain", b"xn--bcher-kva.example"), ("plain", b"0177.0.0.1.example"), ("plain", b"127.1.example"), ("plain", b"example."),
        ("utf8", "bücher.example".encode()), ("utf8", "漢字.example".encode()),
        ("v4", b"127.0.0.1"), ("v4", b"10.255.0.1"), ("v6", b"::1"), ("v6", b"2001:db8::7"), ("v6", b"::ffff:1.2.3.4"),
        ("odd", b"[::1]"), ("odd", b"a:b"), ("odd", b"a:80"), ("odd", b"a b"), ("odd", b"a\r\nX-Injected: 1"), ("odd", b"a\rb"), ("odd", b"a\nb"), ("odd", b"a\x00b"),
        ("odd", b"h%41"), ("odd", b"user@evil.example"), ("odd", b"h/../x"), ("odd", b"*.example"), ("odd", b"\xff\xfe.example"), ("odd", b"a\tb"), ("odd", b""),
    ]
    for _ in range(6):
        n = rng.choice([2, 7, 30, 64, 100, 200, 254])
        hosts.append(("plain", bytes(rng.choice(b"abcdefghijklmnopqrstuvwxyz0123456789") if (i + 1) % 20 else 46 for i in range(n)).strip(b".") or b"q"))
    return hosts


def shown(host, port, cls):
    """how a proxy prints that destination in its records"""
    h = host.decode("utf-8", "replace")
    if cls == "v6":
        return "[%s]:%d" % (str(__import__("ipaddress").ip_address(h)), port)
    return "%s:%d" % (h, port)


async def send_request(proto, lport, host, cls, port):
    """returns the client's source port (the request is sent whole; the reply does not matter here)"""
    c = await open_conn("127.0.0.1", lport)
    try:
        if proto == "http":
            hp = (b"[" + host + b"]" if cls == "v6" else host) + b":%d" % port
            c.write(b"CONNECT " + hp + b" HTTP/1.1\r\nHost: " + hp + b"\r\n\r\n")
        elif proto == "socks5":
            c.write(bytes([5, 1, 0]))
            await c.drain()
            await c.read_exact(2, timeout=3)
            if cls == "v4":
                a = b"\x01" + socket.inet_pton(socket.AF_INET, host.decode())
            elif cls == "v6":
                a = b"\x04" + socket.inet_pton(socket.AF_INET6, host.decode())
            else:
                a = b"\x03" + bytes([len(host)]) + host
            c.write(bytes([5, 1, 0]) + a + struct.pack(">H", port))
        else:  # socks4 / socks4a
            if cls == "v4":
                c.write(bytes([4, 1]) + struct.pack(">H", port) + socket.inet_pton(socket.AF_INET, host.decode()) + b"id\0")
            else:
                c.write(bytes([4, 1]) + struct.pack(">H", port) + b"\0\0\0\x01" + b"id\0" + host + b"\0")
        await c.drain()
        try:
            await c.read_some(4096, timeout=1.5)
        except Exception:
            pass
        return c.local[1]
    finally:
        c.close()


def carriable(proto, host, cls):
    """can this client protocol carry that host at all (as the bytes given)?"""
    if proto == "http":
        return cls != "odd" or not any(b in host for b in (b" ", b"\r", b"\n", b"\t", b"\x00")) and host != b""
    if proto == "socks5":
        return len(host) <= 255 and (cls != "odd" or len(host) > 0)
    return cls != "v6" and b"\x00" not in host and host != b""


def representable_everywhere(host, cls, ck):
    if cls == "v4":
        return True
    if cls == "v6":
        return ck != "s4"
    return cls == "plain" and len(host) <= 253


async def main(args):
    out = Out("C03", "c03-e2e", "destinations (host classes: plain names up to 253/255 bytes, mixed case, punycode, UTF-8, IPv4/IPv6 literals, and odd ones with ':', space, CR, LF, NUL, TAB, '%', '@', brackets, 0xFF, empty) x a unique port per request, named in HTTP CONNECT / SOCKS5 / SOCKS4a to proxy A and forwarded to proxy B through each connector kind (http, https, socks5, socks4, socks5+tls, quic); verdict from the targets the two proxies recorded. distinct = distinct (client protocol, connector, host class, outcome)")
    lib.UNIQUE_SRC = True
    rng = random.Random(args.seed)
    wd = workdir("c03")
    PB = {k: free_port() for k in ("http", "https", "socks", "sockstls", "quic", "api")}
    b_l = [{"name": "http", "bind": "127.0.0.1:%d" % PB["http"]}, {"name": "https", "type": "http", "bind": "127.0.0.1:%d" % PB["https"], "tls": tls_server()},
           {"name": "socks", "bind": "127.0.0.1:%d" % PB["socks"]}, {"name": "sockstls", "type": "socks", "bind": "127.0.0.1:%d" % PB["sockstls"], "tls": tls_server()},
           {"name": "quic", "bind": "127.0.0.1:%d" % PB["quic"], "tls": tls_server()}]
    # B refuses everything after recording it: nothing has to be resolved or connected
    B = Proxy(args.bin, base_cfg(b_l, [{"name": "direct"}], [{"target": "deny"}], metrics_port=PB["api"], history=200000), "B", wd)
    conns = [{"name": "h", "type": "http", "server": "127.0.0.1", "port": PB["http"]},
             {"name": "hs", "type": "http", "server": "localhost", "port": PB["https"], "tls": tls_client()},
             {"name": "s5", "type": "socks", "server": "127.0.0.1", "port": PB["socks"]},
             {"name": "s4", "type": "socks", "server": "127.0.0.1", "port": PB["socks"], "version": 4},
             {"name": "stls", "type": "socks", "server": "localhost", "port": PB["sockstls"], "tls": tls_client()},
             {"name": "q", "type": "quic", "server": "localhost", "port": PB["quic"], "tls": tls_client(), "bind": "127.0.0.1:0"}]
    PA = {"api": free_port()}
    a_l, rules = [], []
    for ck in CONNECTORS:
        for lk in ("http", "socks"):
            n = "%s-%s" % (lk, ck)
            PA[n] = free_port()
            a_l.append({"name": n, "type": lk, "bind": "127.0.0.1:%d" % PA[n]})
            rules.append({"filter": 'request.listener == "%s"' % n, "target": ck})
    PA["socks-direct"] = free_port()
    a_l.append({"name": "socks-direct", "type": "socks", "bind": "127.0.0.1:%d" % PA["socks-direct"]})
    rules.append({"filter": 'request.listener == "socks-direct"', "target": "direct"})
    conns.append({"name": "direct"})
    A = Proxy(args.bin, base_cfg(a_l, conns, rules, metrics_port=PA["api"], history=200000), "A", wd)
    try:
        await B.start()
        await A.start()
        hosts = host_pool(rng)
        used_ports = set()
        reqs = []
        protos = ["http", "socks5", "socks4"]
        for ck in CONNECTORS:
            for proto in protos:
                pool = hosts if args.thorough else rng.sample(hosts, 16) + [h for h in hosts if h[1] in (b"localhost", b"::1", b"127.0.0.1", b"a\r\nX-Injected: 1", b"a:80")]
                for cls, host in pool:
                    if not carriable(proto, host, cls):
                        continue
                    port = rng.randrange(1, 65536)
                    while port in used_ports:
                        port = rng.randrange(1, 65536)
                    used_ports.add(port)
                    reqs.append({"ck": ck, "proto": proto, "cls": cls, "host": host, "port": port})
        rng.shuffle(reqs)

        async def one(q):
            lname = "%s-%s" % ("http" if q["proto"] == "http" else "socks", q["ck"])
            try:
                q["src"] = await send_request(q["proto"], PA[lname], q["host"], q["cls"], q["port"])
            except Exception as e:
                q["src"] = None
                q["err"] = repr(e)[:80]
        for i in range(0, len(reqs), 24):
            await asyncio.gather(*[one(q) for q in reqs[i:i + 24]])
        await asyncio.sleep(1.5)
        recsA = (await A.api_json("/history", timeout=30)) + (await A.api_json("/live", timeout=30))
        recsB = (await B.api_json("/history", timeout=30)) + (await B.api_json("/live", timeout=30))
        a_by_src = {}
        for h in recsA:
            try:
                a_by_src[int(h["source"].rsplit(":", 1)[1])] = h
            except Exception:
                pass
        b_by_port = {}
        for h in recsB:
            t = str(h.get("target", ""))
            try:
                b_by_port.setdefault(int(t.rsplit(":", 1)[1]), []).append(h)
            except Exception:
                b_by_port.setdefault(None, []).append(h)
        for q in reqs:
            out.case()
            want = shown(q["host"], q["port"], q["cls"])
            w = {"client_protocol": q["proto"], "connector": q["ck"], "host_hex": q["host"].hex(), "host_class": q["cls"], "port": q["port"], "asked_for": want}
            ra = a_by_src.get(q["src"]) if q.get("src") else None
            rb = b_by_port.pop(q["port"], [])
            ta = None if ra is None else str(ra.get("target"))
            outcome = "refused-at-A-inbound"
            if ra is not None and ta not in (None, "unknown", "None"):
                outcome = "refused-at-A-outbound"
                if ta != want:
                    # an address may be printed in another spelling (e.g. IPv4-mapped): compare parsed forms for literals
                    same = False
                    if q["cls"] in ("v4", "v6"):
                        try:
                            import ipaddress
                            hp = ta.rsplit(":", 1)
                            same = ipaddress.ip_address(hp[0].strip("[]")) == ipaddress.ip_address(q["host"].decode()) and int(hp[1]) == q["port"]
                        except Exception:
                            same = False
                    if not same:
                        out.violation("destination seen by the first proxy's rules differs from the one the client named [%s, %s host]" % (q["proto"], q["cls"]), dict(w, first_hop_recorded=ta))
                        continue
            if rb:
                outcome = "forwarded"
                for h in rb:
                    tb = str(h.get("target"))
                    ok = tb == want
                    if not ok and q["cls"] in ("v4", "v6"):
                        try:
                            import ipaddress
                            hp = tb.rsplit(":", 1)
                            ok = ipaddress.ip_address(hp[0].strip("[]")) == ipaddress.ip_address(q["host"].decode()) and int(hp[1]) == q["port"]
                        except Exception:
                            ok = False
                    if not ok:
                        out.violation("next hop was asked for another destination than the client's [%s via %s, %s host]" % (q["proto"], q["ck"], q["cls"]), dict(w, next_hop_recorded=tb, first_hop_recorded=ta))
                if len(rb) > 1:
                    out.violation("one request reached the next hop more than once [%s via %s]" % (q["proto"], q["ck"]), dict(w, times=len(rb)))
            elif ra is not None and ta == want and representable_everywhere(q["host"], q["cls"], q["ck"]):
                out.violation("a destination every protocol on the way can represent did not reach the next hop [%s via %s, %s host]" % (q["proto"], q["ck"], q["cls"]),
                              dict(w, first_hop_recorded=ta, first_hop_error=ra.get("error")))
            out.nontrivial((q["proto"], q["ck"], q["cls"], outcome))
            if len(out.samples) < 6 and outcome == "forwarded":
                out.sample(dict(w, outcome=outcome, first_hop_recorded=ta, next_hop_recorded=[str(h.get("target")) for h in rb]))
        # anything left at B is a destination nobody asked for
        for port, hs in b_by_port.items():
            for h in hs:
                if str(h.get("target")) == "unknown":
                    # the first proxy connected and then sent nothing complete: it refused the destination at encoding time
                    err = str(h.get("error"))
                    if "closed before the request completed" in err or "EOF" in err:
                        out.count("refused_after_connecting_to_the_next_hop")
                    else:
                        out.violation("first proxy sent the next hop a request it cannot parse", {"listener": h.get("listener"), "next_hop_error": err[:300]})
                    continue
                out.violation("next hop recorded a destination that no client asked for (re-split or re-interpreted)", {"next_hop_recorded": str(h.get("target")), "listener": h.get("listener")})
        # ---- UDP: the destination is carried per datagram. One association, datagrams to the same host NAME on different ports
        # and to different spellings of the same host on one port: every datagram must arrive at the port it names
        loop = asyncio.get_running_loop()
        sinks = []
        for _ in range(3):
            u = socket.socket(socket.AF_INET, socket.SOCK_DGRAM)
            u.bind(("127.0.0.1", 0))
            u.setblocking(False)
            sinks.append(u)
        ctl = await open_conn("127.0.0.1", PA["socks-direct"])
        try:
            ctl.write(bytes([5, 1, 0]))
            await ctl.drain()
            await ctl.read_exact(2, timeout=3)
            ctl.write(bytes([5, 3, 0, 1, 0, 0, 0, 0, 0, 0]))
            await ctl.drain()
            rep = await ctl.read_exact(10, timeout=3)
            relay = ("127.0.0.1", struct.unpack(">H", rep[8:10])[0])
            cu = socket.socket(socket.AF_INET, socket.SOCK_DGRAM)
            cu.bind(("127.0.0.1", 0))
            cu.setblocking(False)
            plan = []
            for k in range(40 if args.thorough else 16):
                name = rng.choice([b"localhost", b"localhost", b"LOCALHOST", b"127.0.0.1"])
                plan.append((name, rng.randrange(3)))
            sent = []
            for k, (name, si) in enumerate(plan):
                port = sinks[si].getsockname()[1]
                payload = b"c03-udp-%d-%d" % (args.seed, k)
                a = (b"\x01" + socket.inet_pton(socket.AF_INET, name.decode())) if name == b"127.0.0.1" else (b"\x03" + bytes([len(name)]) + name)
                await loop.sock_sendto(cu, b"\0\0\0" + a + struct.pack(">H", port) + payload, relay)
                sent.append((payload, si, name))
                await asyncio.sleep(0.02)
            await asyncio.sleep(0.5)
            got = {}
            for si, u in enumerate(sinks):
                while True:
                    try:
                        d, _ = u.recvfrom(65536)
                        got.setdefault(d, []).append(si)
                    except BlockingIOError:
                        break
            for payload, si, name in sent:
                out.case()
                where = got.get(payload, [])
                out.nontrivial(("udp", "direct", name.decode(), si, tuple(where)))
                if where and where != [si]:
                    out.violation("UDP datagram delivered to another destination port than the one it names [socks5 via direct]",
                                  {"named_host": name.decode(), "named_sink": si, "arrived_at_sinks": where, "datagram": payload.decode()})
            cu.close()
        finally:
            ctl.close()
            for u in sinks:
                u.close()
        out.setx("requests", len(reqs))
        for p in (A, B):
            if not p.alive():
                out.violation("proxy process died", {"proxy": p.name, "rc": p.exit_status(), "stderr": p.stderr_tail(600)})
    finally:
        A.cleanup()
        B.cleanup()
    out.finish()


if __name__ == "__main__":
    run_main(main)
