"""C04 — end-of-stream and abort are relayed faithfully, identically in both I/O modes.
Close-event scenario grid on real sockets; absolute oracle (EOF only after all bytes, opposite direction
keeps flowing, both closed after both ended / after an abort, history states) and a differential between
useSplice true/false (same logical observations)."""
import asyncio
import itertools
import random
import socket
import struct

from .lib import Out, TcpOrigin, keystream, now, run_main
from .topo import CONNECTORS, HLEN, LISTENERS, Chain, parse_tunnel_header, tunnel_header

B_CLOSE = 3.0   # "promptly": from the later of (FIN sent, last byte of that direction received) to EOF observed
WATCHDOG = 15.0
P_AFTER = 3000
TLS_LISTENERS = {"https", "sockstls"}

SCENARIOS = {
    1: "client FIN first, origin then sends P more and closes",
    2: "origin FIN first, client then sends P more and closes",
    3: "both FIN at the same time",
    4: "client RST mid-transfer",
    5: "origin RST mid-transfer",
    6: "client close() while origin data is in flight to a paused reader",
    7: "client FIN at offset 0 right after the handshake, origin answers and closes",
    8: "client sends megabytes then FIN while the origin starts reading late with a small buffer (back-pressure before the FIN)",
    9: "origin sends megabytes then FIN while the client starts reading late with a small buffer (back-pressure before the FIN)",
    10: "origin FIN first, client then keeps sending a little every 0.5 s for longer than the idle period, then FIN",
}
SCENARIOS[11] = "client RST while the origin stays open and silent: the proxy must end the tunnel on both sides by itself"
SCENARIOS[13] = "upstream proxy sends its success reply and the origin's first bytes in one segment, more later, then FIN; the client reads to EOF, then uploads and closes"
SCENARIOS[12] = "origin RST while the client stays open and silent: the proxy must end the tunnel on both sides by itself"
SCENARIOS[14] = "client floods until it blocks on an origin that stopped reading, then the origin aborts (RST) with the proxy's buffers full; fresh tunnels follow on the same proxies"
SCENARIOS[15] = "origin floods until it blocks on a client that stopped reading, then the client aborts (RST) with the proxy's buffers full; fresh tunnels follow on the same proxies"
FLOOD_MAX = 96 << 20
IDLE = 3   # timeouts.idle of the proxies in this monitor: only a tunnel silent in BOTH directions for that long may be reaped


class C04Origins:
    def __init__(self, seed, oports):
        self.seed = seed
        self.recs = {}
        self.servers = []
        self.oports = oports

    async def start(self):
        for ck, p in self.oports.items():
            self.servers.append(await TcpOrigin(self._h(ck), host=None, port=p).start())
        return self

    async def stop(self):
        for s in self.servers:
            await s.stop()

    def _h(self, ck):
        async def handler(r, w, origin, info):
            rec = {"ck": ck, "c2s": bytearray(), "eof_t": None, "rst": False, "closed_t": None, "post": bytearray(), "events": []}
            try:
                head = await r.readexactly(HLEN)
                uid, n_c2s, m_s2c, scen = parse_tunnel_header(head)
                rec["c2s"] += head
                self.recs[uid] = rec
                s2c = keystream(self.seed, uid, "s2c", m_s2c)
                post = keystream(self.seed, uid, "post-s2c", P_AFTER)

                async def read_until_eof(into, limit_t=WATCHDOG * (4 if scen in (8, 9) else 1)):
                    # the watchdog is generous (the scenarios with megabytes share one python event loop with everything
                    # else); when it fires that is recorded and the scenario is not judged
                    t0 = now()
                    try:
                        while now() - t0 < limit_t:
                            b = await asyncio.wait_for(r.read(1 << 16), limit_t)
                            if not b:
                                rec["eof_t"] = now()
                                rec["events"].append("eof")
                                return True
                            into.extend(b)
                            rec["last_t"] = now()
                    except asyncio.TimeoutError:
                        pass
                    rec["watchdog"] = True
                    return False
                if scen == 8:
                    w.get_extra_info("socket").setsockopt(socket.SOL_SOCKET, socket.SO_RCVBUF, 65536)
                    w.transport.pause_reading()
                    await asyncio.sleep(0.6)
                    w.transport.resume_reading()
                if scen in (1, 7, 8):
                    w.write(s2c)
                    await w.drain()
                    await read_until_eof(rec["c2s"])
                    # opposite direction keeps flowing after the client's FIN
                    w.write(post)
                    await w.drain()
                    rec["events"].append("post-sent")
                elif scen in (2, 9, 10):
                    w.write(s2c)
                    await w.drain()
                    w.write_eof()
                    rec["events"].append("fin-sent")
                    rec["fin_t"] = now()
                    await read_until_eof(rec["c2s"])
                elif scen == 3:
                    w.write(s2c)
                    await w.drain()
                    while len(rec["c2s"]) < n_c2s:
                        b = await asyncio.wait_for(r.read(1 << 16), WATCHDOG)
                        if not b:
                            break
                        rec["c2s"] += b
                    w.write_eof()
                    rec["fin_t"] = now()
                    await read_until_eof(rec["c2s"])
                elif scen == 4:
                    w.write(s2c)
                    await w.drain()
                    await read_until_eof(rec["c2s"])
                elif scen == 11:
                    w.write(s2c)
                    await w.drain()
                    await read_until_eof(rec["c2s"])
                    await asyncio.sleep(B_CLOSE + 1.5)   # neither answer nor close: ending the tunnel is the proxy's job
                elif scen in (5, 12):
                    w.write(s2c)
                    await w.drain()
                    while len(rec["c2s"]) < n_c2s:
                        b = await asyncio.wait_for(r.read(1 << 16), WATCHDOG)
                        if not b:
                            break
                        rec["c2s"] += b
                    sock = w.get_extra_info("socket")
                    sock.setsockopt(socket.SOL_SOCKET, socket.SO_LINGER, struct.pack("ii", 1, 0))
                    rec["rst_t"] = now()
                    w.transport.abort()
                    return
                elif scen == 14:
                    # stop reading (small window), let the client's flood pile up in every buffer on the way, then abort
                    sock = w.get_extra_info("socket")
                    sock.setsockopt(socket.SOL_SOCKET, socket.SO_RCVBUF, 65536)
                    w.transport.pause_reading()
                    rec["paused"] = True
                    for _ in range(int(WATCHDOG * 2 * 100)):
                        if rec.get("abort_now"):
                            break
                        await asyncio.sleep(0.01)
                    sock.setsockopt(socket.SOL_SOCKET, socket.SO_LINGER, struct.pack("ii", 1, 0))
                    rec["rst_t"] = now()
                    w.transport.abort()
                    return
                elif scen == 15:
                    # flood a client that does not read until the write side blocks, then wait for the end
                    chunk = b"\x5a" * (1 << 18)
                    sent = 0
                    try:
                        while sent < FLOOD_MAX:
                            w.write(chunk)
                            sent += len(chunk)
                            await asyncio.wait_for(w.drain(), 0.7)
                    except asyncio.TimeoutError:
                        rec["blocked"] = True
                    rec["flooded"] = sent
                    await read_until_eof(rec["c2s"])
                elif scen == 6:
                    w.write(s2c)  # large: the client never reads it
                    try:
                        await asyncio.wait_for(w.drain(), WATCHDOG)
                    except (ConnectionError, asyncio.TimeoutError, OSError):
                        rec["rst"] = True
                    await read_until_eof(rec["c2s"])
            except (ConnectionResetError, BrokenPipeError) as e:
                rec["rst"] = True
                rec["eof_t"] = rec["eof_t"] or now()
                rec["events"].append("rst")
            except (asyncio.IncompleteReadError, asyncio.TimeoutError, OSError) as e:
                rec["events"].append("err:" + type(e).__name__)
            finally:
                rec["closed_t"] = now()
        return handler


async def scenario(out, chain, origins, seed, uid, lk, ck, scen, io_name, n_c2s, m_s2c):
    """returns the logical observation dict (or None when inconclusive)"""
    out.case()
    obs = {"scenario": scen, "lk": lk, "ck": ck}
    c2s = tunnel_header(uid, max(n_c2s, HLEN), m_s2c, scen) + keystream(seed, uid, "c2s", max(n_c2s, HLEN) - HLEN)
    post_c2s = keystream(seed, uid, "post-c2s", P_AFTER)
    want_s2c = keystream(seed, uid, "s2c", m_s2c)
    want_post = keystream(seed, uid, "post-s2c", P_AFTER)
    try:
        conn, ok, detail = await chain.open_tunnel(lk, ck, "ipv4", rcvbuf=65536 if scen in (9, 15) else None)
    except Exception as e:
        out.inconclusive += 1
        return None
    if not ok:
        out.violation("tunnel refused: %s via %s" % (lk, ck), {"reply": detail})
        conn.close()
        return None
    src_port = conn.local[1]
    got = bytearray()
    t_close = {}
    who = "%s via %s io=%s" % (lk, ck, io_name)

    async def read_to_eof(limit=WATCHDOG):
        t0 = now()
        try:
            while now() - t0 < limit:
                b = await conn.read_some(1 << 16, timeout=limit)
                if not b:
                    t_close["client_eof"] = now()
                    return "eof"
                got.extend(b)
                t_close["last_data"] = now()
        except (ConnectionResetError, BrokenPipeError):
            t_close["client_eof"] = now()
            return "rst"
        except asyncio.TimeoutError:
            return "timeout"
        except OSError:
            t_close["client_eof"] = now()
            return "rst"
        return "timeout"

    async def origin_rec():
        for _ in range(300):
            r = origins.recs.get(uid)
            if r is not None:
                return r
            await asyncio.sleep(0.01)
        return None
    try:
        if scen in (1, 7, 8):
            conn.write(c2s)
            await conn.drain()
            t_fin = now()
            conn.eof()
            end = await read_to_eof(WATCHDOG * 4 if scen in (8, 9) else WATCHDOG)
            rec = await origin_rec()
            if rec is None:
                out.violation("origin never saw the tunnel: " + who, {"scenario": scen})
                return None
            for _ in range(int(WATCHDOG * (4 if scen in (8, 9) else 1) * 100)):
                if rec["closed_t"]:
                    break
                await asyncio.sleep(0.01)
            if rec.get("watchdog"):
                out.inconclusive += 1
                return None
            obs["origin_saw_eof"] = rec["eof_t"] is not None and rec["eof_t"] - max(t_fin, rec.get("last_t", 0)) <= B_CLOSE
            obs["origin_bytes_before_eof_ok"] = bytes(rec["c2s"]) == c2s
            obs["client_got_all_after_its_fin"] = bytes(got) == want_s2c + want_post
            obs["client_end"] = end
            if rec["eof_t"] is None:
                out.violation("half-close not relayed: client FIN never reaches the origin [%s]" % io_name,
                              {"who": who, "scenario": SCENARIOS[scen], "origin_received": len(rec["c2s"]), "sent": len(c2s), "waited_s": WATCHDOG})
            elif not obs["origin_saw_eof"]:
                out.violation("half-close relayed late (> %.0fs): client FIN [%s]" % (B_CLOSE, io_name), {"who": who, "delay_s": round(rec["eof_t"] - t_fin, 2)})
            elif not obs["origin_bytes_before_eof_ok"]:
                out.violation("EOF observed before all bytes sent before it (c2s) [%s]" % io_name, {"who": who, "received": len(rec["c2s"]), "sent": len(c2s)})
            if rec["eof_t"] is not None and not obs["client_got_all_after_its_fin"]:
                out.violation("opposite direction stopped after a half-close (s2c after client FIN) [%s]" % io_name,
                              {"who": who, "client_received": len(got), "expected": len(want_s2c) + P_AFTER, "end": end})
            if rec["eof_t"] is not None and end != "eof":
                out.violation("client does not observe end-of-stream after both directions ended [%s]" % io_name, {"who": who, "end": end})
        elif scen in (2, 9):
            if scen == 9:
                conn.w.transport.pause_reading()
            conn.write(c2s)
            await conn.drain()
            if scen == 9:
                await asyncio.sleep(0.6)
                conn.w.transport.resume_reading()
            # expect all M bytes then EOF while our direction is still open
            end = await read_to_eof(WATCHDOG * 4 if scen in (8, 9) else WATCHDOG)
            rec = await origin_rec()
            if rec is None:
                out.violation("origin never saw the tunnel: " + who, {"scenario": scen})
                return None
            fin_t = rec.get("fin_t")
            obs["client_saw_eof"] = end == "eof" and fin_t is not None and t_close.get("client_eof", 1e18) - max(fin_t, t_close.get("last_data", 0)) <= B_CLOSE
            obs["client_bytes_before_eof_ok"] = bytes(got) == want_s2c
            if end == "timeout":
                out.violation("half-close not relayed: origin FIN never reaches the client [%s]" % io_name, {"who": who, "client_received": len(got), "sent": len(want_s2c)})
            elif not obs["client_bytes_before_eof_ok"]:
                out.violation("EOF observed before all bytes sent before it (s2c) [%s]" % io_name, {"who": who, "received": len(got), "sent": len(want_s2c), "end": end})
            elif not obs["client_saw_eof"]:
                out.violation("half-close relayed late (> %.0fs): origin FIN [%s]" % (B_CLOSE, io_name), {"who": who})
            if lk not in TLS_LISTENERS and end == "eof":
                # our direction must still work
                conn.write(post_c2s)
                await conn.drain()
                t_fin = now()
                conn.eof()
                for _ in range(int(WATCHDOG * (4 if scen in (8, 9) else 1) * 100)):
                    if rec["closed_t"]:
                        break
                    await asyncio.sleep(0.01)
                if rec.get("watchdog"):
                    out.inconclusive += 1
                    return None
                obs["origin_got_post"] = bytes(rec["c2s"]) == c2s + post_c2s
                obs["origin_saw_eof"] = rec["eof_t"] is not None and rec["eof_t"] - max(t_fin, rec.get("last_t", 0)) <= B_CLOSE
                if not obs["origin_got_post"]:
                    out.violation("opposite direction stopped after a half-close (c2s after origin FIN) [%s]" % io_name,
                                  {"who": who, "origin_received": len(rec["c2s"]), "expected": len(c2s) + P_AFTER})
                elif not obs["origin_saw_eof"]:
                    out.violation("origin does not observe end-of-stream after both directions ended [%s]" % io_name, {"who": who})
        elif scen == 10:
            conn.write(c2s)
            await conn.drain()
            end = await read_to_eof(WATCHDOG * 4 if scen in (8, 9) else WATCHDOG)
            rec = await origin_rec()
            if rec is None:
                out.violation("origin never saw the tunnel: " + who, {"scenario": scen})
                return None
            obs["client_bytes_before_eof_ok"] = bytes(got) == want_s2c and end == "eof"
            # the origin's direction is finished and silent from now on; ours goes on for IDLE + 1.5 s
            sent_after = bytearray()
            broke = None
            t0 = now()
            k = 0
            while now() - t0 < IDLE + 1.5:
                piece = post_c2s[(k * 97) % (P_AFTER - 97):][:97]
                try:
                    conn.write(piece)
                    await conn.drain()
                    sent_after += piece
                except (ConnectionError, OSError) as e:
                    broke = type(e).__name__
                    break
                k += 1
                await asyncio.sleep(0.5)
            t_fin = now()
            conn.eof()
            for _ in range(int(WATCHDOG * 100)):
                if rec["closed_t"]:
                    break
                await asyncio.sleep(0.01)
            obs["origin_got_everything_sent_after_its_fin"] = bytes(rec["c2s"]) == c2s + bytes(sent_after) and broke is None
            obs["origin_saw_eof"] = rec["eof_t"] is not None and rec["eof_t"] - max(t_fin, rec.get("last_t", 0)) <= B_CLOSE
            if not obs["origin_got_everything_sent_after_its_fin"]:
                out.violation("opposite direction stopped after a half-close (c2s still active for longer than the idle period after the origin's FIN) [%s]" % io_name,
                              {"who": who, "origin_received": len(rec["c2s"]), "expected": len(c2s) + len(sent_after), "client_write_error": broke, "idle_period_s": IDLE})
            elif not obs["origin_saw_eof"]:
                out.violation("origin does not observe end-of-stream after both directions ended [%s]" % io_name, {"who": who})
        elif scen in (11, 12):
            conn.write(c2s)
            await conn.drain()
            rec = await origin_rec()
            if rec is None:
                out.violation("origin never saw the tunnel: " + who, {"scenario": scen})
                return None
            if scen == 11:
                got_s2c = await conn.read_exact(len(want_s2c), timeout=WATCHDOG) if want_s2c else b""
                await asyncio.sleep(0.05)
                t_abort = now()
                conn.abort()
            else:
                # the origin resets after it has our bytes; we neither read on nor close
                for _ in range(int(WATCHDOG * 100)):
                    if rec.get("rst_t"):
                        break
                    await asyncio.sleep(0.01)
                t_abort = rec.get("rst_t") or now()
            await asyncio.sleep(max(0.0, t_abort + B_CLOSE - now()))
            still = None
            if lk != "quic":
                try:
                    live = await chain.A.api_json("/live")
                    still = any(int(h["source"].rsplit(":", 1)[1]) == src_port for h in live)
                except Exception:
                    still = None
            obs["tunnel_ended_by_the_proxy"] = (still is False) or lk == "quic"
            if still:
                out.violation("after an abort (RST) by one endpoint the tunnel is still live although the other endpoint stayed silent [%s]" % io_name,
                              {"who": who, "scenario": SCENARIOS[scen], "seconds_after_the_abort": round(now() - t_abort, 1)})
            elif still is None and lk != "quic":
                out.inconclusive += 1
        elif scen == 3:
            conn.write(c2s)
            await conn.drain()
            t_fin = now()
            conn.eof()
            end = await read_to_eof(WATCHDOG * 4 if scen in (8, 9) else WATCHDOG)
            rec = await origin_rec()
            if rec is None:
                out.violation("origin never saw the tunnel: " + who, {"scenario": scen})
                return None
            for _ in range(int(WATCHDOG * 100)):
                if rec["closed_t"]:
                    break
                await asyncio.sleep(0.01)
            obs["both_ok"] = bytes(got) == want_s2c and bytes(rec["c2s"]) == c2s and end == "eof" and rec["eof_t"] is not None
            if not obs["both_ok"]:
                out.violation("simultaneous FIN: a direction lost bytes or never ended [%s]" % io_name,
                              {"who": who, "client_received": len(got), "of": len(want_s2c), "origin_received": len(rec["c2s"]), "of_c2s": len(c2s), "client_end": end, "origin_eof": rec["eof_t"] is not None})
        elif scen == 4:
            conn.write(c2s)
            await conn.drain()
            rec = await origin_rec()
            await asyncio.sleep(0.05)
            t_rst = now()
            conn.abort()
            if rec is None:
                out.violation("origin never saw the tunnel: " + who, {"scenario": scen})
                return None
            for _ in range(int(WATCHDOG * 100)):
                if rec["closed_t"]:
                    break
                await asyncio.sleep(0.01)
            ended = rec["eof_t"] is not None or rec["rst"]
            obs["origin_observes_end"] = ended and (rec["eof_t"] or rec["closed_t"]) - t_rst <= B_CLOSE
            if not ended:
                out.violation("client abort (RST) not relayed to the origin [%s]" % io_name, {"who": who, "waited_s": WATCHDOG})
            elif not obs["origin_observes_end"]:
                out.violation("client abort relayed late [%s]" % io_name, {"who": who})
        elif scen == 5:
            conn.write(c2s)
            await conn.drain()
            end = await read_to_eof(WATCHDOG * 4 if scen in (8, 9) else WATCHDOG)
            rec = await origin_rec()
            obs["client_observes_end"] = end in ("eof", "rst") and rec is not None and t_close.get("client_eof", 1e18) - rec.get("rst_t", 0) <= B_CLOSE
            if end == "timeout":
                out.violation("origin abort (RST) not relayed to the client [%s]" % io_name, {"who": who, "waited_s": WATCHDOG})
            elif not obs["client_observes_end"]:
                out.violation("origin abort relayed late [%s]" % io_name, {"who": who})
        elif scen == 14:
            conn.write(c2s)
            await conn.drain()
            rec = await origin_rec()
            if rec is None:
                out.violation("origin never saw the tunnel: " + who, {"scenario": scen})
                return None
            chunk = b"\xa5" * (1 << 18)
            sent, blocked = 0, False
            try:
                while sent < FLOOD_MAX:
                    conn.write(chunk)
                    sent += len(chunk)
                    await asyncio.wait_for(conn.drain(), 0.7)
            except asyncio.TimeoutError:
                blocked = True
            except (ConnectionError, OSError):
                pass
            obs["flood_blocked"] = blocked
            out.count("floods_that_blocked" if blocked else "floods_that_never_blocked")
            rec["abort_now"] = True
            end = await read_to_eof(WATCHDOG)
            obs["client_observes_end"] = end in ("eof", "rst")
            if end == "timeout":
                out.violation("origin abort (RST) with the proxy's buffers full not relayed to the client [%s]" % io_name, {"who": who, "waited_s": WATCHDOG, "flooded": sent})
        elif scen == 15:
            conn.write(c2s)
            await conn.drain()
            rec = await origin_rec()
            if rec is None:
                out.violation("origin never saw the tunnel: " + who, {"scenario": scen})
                return None
            for _ in range(int(WATCHDOG * 2 * 100)):
                if "flooded" in rec or rec["closed_t"]:
                    break
                await asyncio.sleep(0.01)
            obs["flood_blocked"] = bool(rec.get("blocked"))
            out.count("floods_that_blocked" if rec.get("blocked") else "floods_that_never_blocked")
            t_rst = now()
            conn.abort()
            for _ in range(int(WATCHDOG * 100)):
                if rec["closed_t"]:
                    break
                await asyncio.sleep(0.01)
            ended = rec["eof_t"] is not None or rec["rst"]
            obs["origin_observes_end"] = ended
            if not ended:
                out.violation("client abort (RST) with the proxy's buffers full not relayed to the origin [%s]" % io_name, {"who": who, "waited_s": WATCHDOG, "flooded": rec.get("flooded")})
        elif scen == 6:
            conn.write(c2s)
            await conn.drain()
            rec = await origin_rec()
            await asyncio.sleep(0.3)  # let the origin data pile up in the proxy
            t_rst = now()
            conn.close()
            if rec is None:
                out.violation("origin never saw the tunnel: " + who, {"scenario": scen})
                return None
            for _ in range(int(WATCHDOG * 100)):
                if rec["closed_t"]:
                    break
                await asyncio.sleep(0.01)
            ended = rec["eof_t"] is not None or rec["rst"]
            obs["origin_observes_end"] = ended and rec["closed_t"] - t_rst <= B_CLOSE + 1
            if not ended:
                out.violation("client close with unread data in flight not relayed to the origin [%s]" % io_name, {"who": who, "waited_s": WATCHDOG})
    finally:
        conn.close()
    out.nontrivial((lk, ck, io_name, scen, n_c2s > HLEN, m_s2c > 0))
    out.sample({"listener": lk, "connector": ck, "io": io_name, "scenario": SCENARIOS[scen], "c2s": len(c2s), "s2c": m_s2c, "observations": {k: v for k, v in obs.items() if k not in ("lk", "ck", "scenario")}})
    obs["src_port"] = src_port
    return obs


async def check_history(out, chain, io_name, expected):
    """expected: list of (src_port, scenario, lk). After everything ended each must have a record with a terminal state."""
    await asyncio.sleep(2.2)  # collector period is 1 s
    try:
        hist = await chain.A.api_json("/history")
        live = await chain.A.api_json("/live")
    except Exception as e:
        out.inconclusive += 1
        return
    # a source port identifies a tunnel only together with the listener it went to (and even then a port can be used again
    # later): records are keyed by (listener family, port) and an ambiguous key is not judged
    def fam_of_record(h):
        n = h.get("listener", "")
        return "rev" if n.startswith("rev") else n
    fam_of_kind = {"socks5": "socks", "socks4": "socks", "socks4a": "socks", "socks5auth": "socksauth", "reverse": "rev"}
    by_key = {}
    for h in hist:
        by_key.setdefault((fam_of_record(h), int(h["source"].rsplit(":", 1)[1])), []).append(h)
    live_keys = {(fam_of_record(h), int(h["source"].rsplit(":", 1)[1])) for h in live}
    n_expected = {}
    for port, scen, lk in expected:
        k = (fam_of_kind.get(lk, lk), port)
        n_expected[k] = n_expected.get(k, 0) + 1
    for port, scen, lk in expected:
        if lk == "quic":
            continue  # A sees proxy C as the source
        key = (fam_of_kind.get(lk, lk), port)
        if n_expected[key] > 1 or len(by_key.get(key, [])) > 1:
            out.count("history_records_ambiguous")
            continue
        if key in live_keys:
            out.violation("tunnel still listed as live after both sides ended / aborted [%s]" % io_name, {"scenario": SCENARIOS[scen], "listener": lk})
            continue
        h = (by_key.get(key) or [None])[0]
        if h is None:
            continue  # history is bounded; absence is C16's business
        states = [s["state"] for s in h["state"]]
        if states[-1] not in ("Terminated", "ErrorOccured"):
            out.violation("finished tunnel has no terminal state [%s]" % io_name, {"states": states, "scenario": SCENARIOS[scen]})
        if scen in (1, 2, 3, 7, 8, 9, 10) and states[-1] == "Terminated":
            if "ClientShutdown" not in states or "ServerShutdown" not in states:
                out.violation("cleanly finished tunnel lacks the per-direction shutdown states [%s]" % io_name, {"states": states, "scenario": SCENARIOS[scen]})
            # (the ORDER of the two shutdown states is not judged: they are recorded when the two copy tasks return, and a task
            # that has already relayed its FIN may still be waiting for the next hop's acknowledgement - TLS close_notify, QUIC
            # stream finish - while the other direction ends; the property asks that the connection be recorded as finished)
        out.count("history_records_checked")


async def upstream_speaks_first(out, args, rng):
    from .lib import Proxy, base_cfg, free_port, http_connect, open_conn, socks5_connect, workdir
    got_up = {}

    cur_io = [None]

    async def speak(r, w, reply, port):
        key = key_of_port(port)
        fkey = (cur_io[0], port)
        n_banner, n_tail = key
        banner, tail = keystream(args.seed, n_banner, "s2c", n_banner), keystream(args.seed, n_tail + 7, "s2c", n_tail)
        w.write(reply + banner)          # ONE write: reply and banner share a segment
        await w.drain()
        await asyncio.sleep(0.25)
        w.write(tail)
        await w.drain()
        w.write_eof()
        up = b""
        try:
            while True:
                b = await asyncio.wait_for(r.read(65536), 8 * WATCHDOG)
                if not b:
                    break
                up += b
            got_up[fkey] = (up, True)
        except Exception:
            got_up[fkey] = (up, False)
        w.close()

    def key_of_port(port):
        k = (port - 1300) % 50
        return (SIZES_B[k % len(SIZES_B)], SIZES_T[(k // len(SIZES_B)) % len(SIZES_T)])
    SIZES_B, SIZES_T = [1, 320, 3000, 8191, 8192, 20000], [0, 1, 5000]

    async def fake_http(r, w, o, info):
        head = await r.readuntil(b"\r\n\r\n")
        port = int(head.split(b" ")[1].rsplit(b":", 1)[1])
        await speak(r, w, b"HTTP/1.1 200 Connection established\r\n\r\n", port)

    async def fake_socks(r, w, o, info):
        g = await r.readexactly(2)
        await r.readexactly(g[1])
        w.write(b"\x05\x00")
        await w.drain()
        h = await r.readexactly(4)
        alen = {1: 4, 4: 16}.get(h[3]) or (await r.readexactly(1))[0]
        rest = await r.readexactly(alen + 2)
        await speak(r, w, b"\x05\x00\x00\x01\x00\x00\x00\x00\x00\x00", struct.unpack(">H", rest[-2:])[0])
    hup = await TcpOrigin(fake_http, host="127.0.0.1").start()
    sup = await TcpOrigin(fake_socks, host="127.0.0.1").start()
    wd = workdir("c04-u")
    try:
        for io_name, io in (("splice", {"bufferSize": 65536, "useSplice": True}), ("buffered", {"bufferSize": 65536, "useSplice": False})):
            P = {k: free_port() for k in ("http", "socks", "api")}
            U = Proxy(args.bin, base_cfg([{"name": "http", "bind": "127.0.0.1:%d" % P["http"]}, {"name": "socks", "bind": "127.0.0.1:%d" % P["socks"]}],
                                         [{"name": "hup", "type": "http", "server": "127.0.0.1", "port": hup.port}, {"name": "sup", "type": "socks", "server": "127.0.0.1", "port": sup.port}],
                                         [{"filter": "request.target.port < 1400", "target": "hup"}, {"target": "sup"}], metrics_port=P["api"], io=io), "U-" + io_name, wd)
            try:
                await U.start()
                cur_io[0] = io_name

                async def one(lk, via, bi, ti):
                    # the fake upstream files what it received under the port, which is unique per tunnel of this proxy
                    port = (1300 if via == "hup" else 1400) + (50 if lk == "socks" else 0) + bi + len(SIZES_B) * ti
                    key = key_of_port(port)
                    out.case()
                    who = "%s via %s io=%s" % (lk, via, io_name)
                    c = await open_conn("127.0.0.1", P[lk])
                    try:
                        if lk == "http":
                            st, _ = await http_connect(c, "127.0.0.1", port)
                            ok = st == 200
                        else:
                            rep, _, _ = await socks5_connect(c, "127.0.0.1", port)
                            ok = rep == 0
                        if not ok:
                            out.violation("tunnel through an upstream that speaks first could not be established: %s" % who, {"sizes": key})
                            return
                        want = keystream(args.seed, key[0], "s2c", key[0]) + keystream(args.seed, key[1] + 7, "s2c", key[1])
                        try:
                            got = await c.read_all(timeout=4 * WATCHDOG)
                        except Exception as e:
                            out.inconclusive += 1   # watchdog: no verdict
                            return
                        if got != want:
                            out.violation("scenario 13: end-of-stream observed before every byte sent before it (bytes that arrived with the upstream's handshake reply): %s" % who,
                                          {"banner": key[0], "tail": key[1], "received": len(got), "sent": len(want), "first_diff": next((i for i in range(min(len(got), len(want))) if got[i] != want[i]), None)})
                        upload = keystream(args.seed, port, "c2s", 5000)
                        c.write(upload)
                        await c.drain()
                        c.eof()
                        for _ in range(int(4 * WATCHDOG / 0.05)):
                            if (io_name, port) in got_up:
                                break
                            await asyncio.sleep(0.05)
                        if (io_name, port) not in got_up:
                            out.inconclusive += 1   # watchdog: no verdict
                        elif got_up[(io_name, port)] != (upload, True):
                            out.violation("scenario 13: the opposite direction did not keep flowing after the origin's end-of-stream: %s" % who, {"upstream_got": len(got_up[(io_name, port)][0]), "sent": len(upload), "eof": got_up[(io_name, port)][1]})
                        out.nontrivial((lk, via, io_name, 13, key))
                    finally:
                        c.close()
                jobs = [one(lk, via, bi, ti) for lk in ("http", "socks") for via in ("hup", "sup") for bi in range(len(SIZES_B)) for ti in range(len(SIZES_T))]
                for i in range(0, len(jobs), 24):
                    await asyncio.gather(*jobs[i:i + 24])
                if not U.alive():
                    out.violation("proxy process died during close scenarios", {"dead": ["U"]})
            finally:
                U.kill()
    finally:
        await hup.stop()
        await sup.stop()


async def main(args):
    from . import lib as _lib
    _lib.UNIQUE_SRC = True   # records are joined with connections by source port
    out = Out("C04", "c04", "scenario grid: first closer {client, origin, both} x kind {FIN, close, RST} x offsets/in-flight data x listener x connector, run against a splice and a buffered proxy; EOF-after-all-bytes, opposite-direction-continues, both-closed, history states; logical observations compared between the two I/O modes. distinct = distinct (listener, connector, io mode, scenario, payload class)")
    rng = random.Random(args.seed)
    modes = [("splice", {"bufferSize": 65536, "useSplice": True}), ("buffered", {"bufferSize": 65536, "useSplice": False})]
    if args.thorough:
        modes += [("splice-4k", {"bufferSize": 4096, "useSplice": True}), ("buffered-7", {"bufferSize": 7, "useSplice": False})]
    # the same plan for every mode so that the observations can be compared
    listeners = [l for l in LISTENERS]
    pairs = list(itertools.product(listeners, CONNECTORS))
    rng.shuffle(pairs)
    if not args.thorough:
        # every listener and every connector at least twice
        pairs = pairs[:30]
        pairs += [(l, "direct") for l in ("http", "socks5", "reverse")] + [("http", c) for c in CONNECTORS]
    plan = []
    uid = args.seed * 1_000_000
    for lk, ck in pairs:
        scens = [1, 2, 3, 4, 5, 6, 7, 8, 9, 10, 11, 12] if args.thorough else rng.sample([1, 2, 3, 4, 5, 6, 7, 8, 9, 10, 11, 12], 4)
        if (lk, ck) in (("http", "direct"), ("socks5", "direct"), ("reverse", "direct")):
            scens = sorted(set(scens) | {11, 12})
        for sc in scens:
            if lk in TLS_LISTENERS and sc in (1, 3, 7, 8, 10):
                continue  # the python TLS client can not half-close
            if sc == 12 and ck != "direct":
                continue  # behind another proxy hop the origin's reset reaches this proxy as that hop's orderly close
            uid += 1
            n = rng.choice([HLEN, HLEN + 1, 5000, 200_000])
            m = rng.choice([0, 1, 5000, 200_000]) if sc != 6 else 4 << 20
            if sc == 7:
                n = HLEN
            if sc == 8:
                n, m = 6 << 20, rng.choice([0, 5000])
            if sc == 9:
                n, m = rng.choice([HLEN, 5000]), 6 << 20
            if sc == 10:
                n, m = rng.choice([HLEN, 5000]), rng.choice([1, 5000])
            if sc in (11, 12):
                n, m = rng.choice([HLEN, 5000]), rng.choice([1, 5000])
            plan.append((uid, lk, ck, sc, n, m))
    results = {}
    for io_name, io in modes:
        chain = Chain(args.bin, io=io, tag="c04", timeouts={"idle": IDLE, "udp": IDLE}).build()
        origins = None
        try:
            await chain.start()
            origins = await C04Origins(args.seed, chain.oports).start()
            expected = []
            for i in range(0, len(plan), 24):
                batch = plan[i:i + 24]
                obs = await asyncio.gather(*[scenario(out, chain, origins, args.seed, u, lk, ck, sc, io_name, n, m) for (u, lk, ck, sc, n, m) in batch])
                for (u, lk, ck, sc, n, m), o in zip(batch, obs):
                    if o is not None:
                        expected.append((o.pop("src_port"), sc, lk))
                        results.setdefault(u, {})[io_name] = o
                dead = chain.dead()
                if dead:
                    out.violation("proxy process died during close scenarios", {"dead": dead})
                    break
            # ---- tunnels torn down with every buffer on the way full (scenarios 14, 15), then fresh tunnels on the same proxy
            # processes: whatever a proxy keeps across tunnels (pooled pipes, buffers) must not carry bytes of a dead tunnel
            # into a new one, and a new tunnel must still deliver everything before its end-of-stream
            if not chain.dead():
                dirty_pairs = [("http", "direct"), ("socks5", "direct"), ("reverse", "direct"), ("http", "h"), ("reverse", "s5")]
                batch = []
                for lk, ck in dirty_pairs:
                    for sc in (14, 15):
                        uid += 1
                        batch.append((uid, lk, ck, sc, HLEN, 1))
                obs = await asyncio.gather(*[scenario(out, chain, origins, args.seed, u, lk, ck, sc, io_name, n, m) for (u, lk, ck, sc, n, m) in batch])
                for (u, lk, ck, sc, n, m), o in zip(batch, obs):
                    if o is not None:
                        expected.append((o.pop("src_port"), sc, lk))
                for rnd in range(2):
                    batch = []
                    for lk, ck in dirty_pairs:
                        for sc in (3, 1, 2):
                            uid += 1
                            batch.append((uid, lk, ck, sc, rng.choice([HLEN, HLEN + 1, 5000, 200_000]), rng.choice([1, 5000, 200_000])))
                    obs = await asyncio.gather(*[scenario(out, chain, origins, args.seed, u, lk, ck, sc, io_name, n, m) for (u, lk, ck, sc, n, m) in batch])
                    for (u, lk, ck, sc, n, m), o in zip(batch, obs):
                        if o is not None:
                            expected.append((o.pop("src_port"), sc, lk))
                            out.count("fresh_tunnels_after_full_buffer_aborts")
                dead = chain.dead()
                if dead:
                    out.violation("proxy process died during close scenarios", {"dead": dead})
            await check_history(out, chain, io_name, expected)
        finally:
            if origins:
                await origins.stop()
            chain.cleanup(args.keep)
    # ---- a buffer larger than a pipe (splice moves at most one pipe-full per call, so every read is "short"): only the
    # back-pressure-before-FIN scenarios, on single-hop and two-hop paths
    chain = Chain(args.bin, io={"bufferSize": 262144, "useSplice": True}, tag="c04", timeouts={"idle": IDLE, "udp": IDLE}).build()
    origins = None
    try:
        await chain.start()
        origins = await C04Origins(args.seed, chain.oports).start()
        batch = []
        for lk, ck in (("http", "direct"), ("socks5", "direct"), ("reverse", "direct"), ("http", "h"), ("reverse", "s5")):
            for sc in (8, 9):
                for small in (False, True):
                    uid += 1
                    batch.append((uid, lk, ck, sc, (6 << 20) if sc == 8 else 5000, 5000 if sc == 8 else (6 << 20), small))
        for i in range(0, len(batch), 5):
            await asyncio.gather(*[scenario(out, chain, origins, args.seed, u, lk, ck, sc, "splice-256k", n, m) for (u, lk, ck, sc, n, m, small) in batch[i:i + 5]])
        dead = chain.dead()
        if dead:
            out.violation("proxy process died during close scenarios", {"dead": dead})
    finally:
        if origins:
            await origins.stop()
        chain.cleanup(args.keep)
    # ---- scenario 13: the upstream proxy's success reply and the first bytes of the origin travel in ONE segment (a server that
    # speaks first), more follows later, then the origin half-closes; the client reads to EOF, then uploads and closes. Bytes that
    # came in with the handshake sit in the proxy's handshake buffers: they are "sent before" the EOF like all others.
    await upstream_speaks_first(out, args, rng)
    # differential: same scenario, same logical observations in both I/O modes
    diffs = 0
    for u, by in results.items():
        if "splice" in by and "buffered" in by:
            out.case()
            if by["splice"] != by["buffered"]:
                diffs += 1
                keys = [k for k in by["splice"] if by["splice"].get(k) != by["buffered"].get(k)]
                out.violation("behaviour differs between splice and buffered I/O: %s" % ",".join(sorted(keys)),
                              {"scenario": SCENARIOS[by["splice"]["scenario"]], "splice": by["splice"], "buffered": by["buffered"]})
    out.setx("scenarios_compared_between_io_modes", sum(1 for b in results.values() if len(b) >= 2))
    out.finish()


if __name__ == "__main__":
    run_main(main)
