"""C06 — the client is told 'established' iff the upstream path is, and only after it is; every other outcome
gets exactly one complete, well-formed failure reply in the client's protocol and the connection is closed.
Monitor: strict reply parser over everything the raw client receives until EOF, joined with upstream-side events
(origin accepts, fake upstream proxies that script their answer and its timing)."""
import asyncio
import random
import struct

from .lib import (Out, Proxy, ProtoError, TcpOrigin, addr_v5, base_cfg, client_ssl, echo_handler, free_port, http_connect_bytes, keystream, now,
                  open_conn, parse_addr_v5, run_main, tls_client, tls_server, workdir)

B_CLOSE = 3.0
USER, PASS = "alice", "s3cret"

BEHAVIOURS = ["ok", "delay", "refuse", "refuseverbose", "refuseintl0", "refuseintl1", "refuseintl2", "refuseintl3", "refuseinterim100", "refuseinterim103", "closeinterim102", "garbage", "closebefore", "closeafter", "resetafter", "partial"]


class FakeUpstreams:
    """Harness-implemented upstream proxies (HTTP CONNECT, SOCKS5, SOCKS4a). The behaviour is selected by the first
    label of the requested host name; events are logged on the harness clock."""

    def __init__(self):
        self.events = []   # (t, kind, proto, host, what)
        self.servers = []
        self.ports = {}

    def log(self, proto, host, what):
        self.events.append((now(), proto, host, what))

    async def start(self):
        for proto, h in (("http", self.h_http), ("socks5", self.h_socks5), ("socks4", self.h_socks4)):
            s = await TcpOrigin(h, host="127.0.0.1").start()
            self.ports[proto] = s.port
            self.servers.append(s)
        # the same HTTP upstream reached over IPv6: the proxy's outbound leg is then an IPv6 socket
        s = await TcpOrigin(self.h_http, host="::1").start()
        self.ports["http6"] = s.port
        self.servers.append(s)
        return self

    async def stop(self):
        for s in self.servers:
            await s.stop()

    async def _tail(self, proto, host, r, w, ok_bytes, fail_bytes):
        beh = host.split(".")[0]
        self.log(proto, host, "request")
        if beh == "closebefore":
            return
        if beh == "garbage":
            w.write(b"\x00\xffgarbage\r\n\r\n" * 3)
            await w.drain()
            return
        if beh == "partial":
            w.write(ok_bytes[: max(1, len(ok_bytes) // 2)])
            await w.drain()
            await asyncio.sleep(0.2)
            return
        if beh == "refuseverbose" and proto == "http":
            # a refusal with a long head: the proxy quotes it in its own error body (bodies over 1 kB)
            fail_bytes = b"HTTP/1.1 403 Forbidden\r\n" + b"".join(b"X-Reason-%d: %s\r\n" % (i, b"policy " * 6) for i in range(30)) + b"Content-Length: 0\r\n\r\n"
        if beh.startswith("refuseintl") and proto == "http":
            # a localised refusal: long non-ASCII (UTF-8) reason phrase and realm, shifted byte by byte so that whatever the proxy
            # cuts, quotes or measures by bytes lands inside a multi-byte character for one of the four
            pad = "x" * int(beh[-1])
            realm = "Для доступа к этому ресурсу требуется авторизация на прокси-сервере организации. 需要代理身份验证。 " * 6
            fail_bytes = ("HTTP/1.1 407 %sТребуется аутентификация прокси\r\nProxy-Authenticate: Basic realm=\"%s\"\r\nContent-Length: 0\r\n\r\n" % (pad, realm)).encode("utf-8")
        if "interim" in beh and proto == "http":
            # an interim (1xx) response first, then the final refusal (or nothing at all): an interim response is no grant
            code = beh[-3:]
            w.write(("HTTP/1.1 %s %s\r\n\r\n" % (code, {"100": "Continue", "102": "Processing", "103": "Early Hints"}[code])).encode())
            await w.drain()
            await asyncio.sleep(0.05)
            if beh.startswith("close"):
                self.log(proto, host, "refused")
                return
        if beh.startswith("close") and "interim" in beh:
            return
        if beh.startswith("refuse"):
            w.write(fail_bytes)
            await w.drain()
            self.log(proto, host, "refused")
            return
        if beh == "delay":
            await asyncio.sleep(0.6)
        w.write(ok_bytes)
        await w.drain()
        self.log(proto, host, "success-sent")
        if beh == "closeafter":
            return
        if beh == "resetafter":
            # granted, then the upstream connection is reset at once (whatever the client pipelined can not be forwarded any more)
            import socket as _s
            w.get_extra_info("socket").setsockopt(_s.SOL_SOCKET, _s.SO_LINGER, struct.pack("ii", 1, 0))
            w.transport.abort()
            return
        await echo_handler(r, w, None, None)

    async def h_http(self, r, w, origin, info):
        head = await r.readuntil(b"\r\n\r\n")
        host = head.split(b" ")[1].decode("latin1").rsplit(":", 1)[0]
        await self._tail("http", host, r, w, b"HTTP/1.1 200 Connection established\r\n\r\n", b"HTTP/1.1 403 Forbidden\r\nContent-Length: 2\r\n\r\nno")

    async def h_socks5(self, r, w, origin, info):
        g = await r.readexactly(2)
        await r.readexactly(g[1])
        w.write(b"\x05\x00")
        await w.drain()
        h = await r.readexactly(4)
        if h[3] == 3:
            n = (await r.readexactly(1))[0]
            host = (await r.readexactly(n)).decode("latin1")
            await r.readexactly(2)
        elif h[3] == 1:
            host = "ip." + ".".join(str(x) for x in await r.readexactly(4))
            await r.readexactly(2)
        else:
            await r.readexactly(18)
            host = "ip6"
        await self._tail("socks5", host, r, w, b"\x05\x00\x00\x01\x7f\x00\x00\x01\x00\x50", b"\x05\x05\x00\x01\x00\x00\x00\x00\x00\x00")

    async def h_socks4(self, r, w, origin, info):
        h = await r.readexactly(8)
        await r.readuntil(b"\0")
        host = "ip"
        if h[4:7] == b"\0\0\0" and h[7] != 0:
            host = (await r.readuntil(b"\0"))[:-1].decode("latin1")
        await self._tail("socks4", host, r, w, b"\x00\x5a\x00\x50\x7f\x00\x00\x01", b"\x00\x5b\x00\x00\x00\x00\x00\x00")


# ----------------------------------------------------------------------------- strict reply parsers
def parse_http_stream(b):
    """returns (kind, consumed) ; kind in success / failure ; raises ProtoError when malformed / incomplete"""
    i = b.find(b"\r\n\r\n")
    if i < 0:
        raise ProtoError("no complete response head in %d bytes" % len(b))
    head = b[:i].split(b"\r\n")
    parts = head[0].split(b" ", 2)
    if len(parts) < 2 or not parts[0].startswith(b"HTTP/1.") or not parts[1].isdigit() or len(parts[1]) != 3:
        raise ProtoError("malformed status line %r" % head[0][:60])
    code = int(parts[1])
    clen = 0
    for l in head[1:]:
        if b":" not in l:
            raise ProtoError("malformed header line %r" % l[:60])
        k, v = l.split(b":", 1)
        if k.strip().lower() == b"content-length":
            clen = int(v.strip())
    body = b[i + 4:]
    if code == 200:
        return "success", i + 4
    if len(body) < clen:
        raise ProtoError("body shorter than Content-Length: %d of %d bytes" % (len(body), clen))
    if len(body) > clen:
        raise ProtoError("%d bytes after the advertised body" % (len(body) - clen))
    return "failure", len(b)


def parse_socks5_stream(b, authed):
    if len(b) < 2 or b[0] != 5:
        raise ProtoError("no method selection: %r" % b[:8])
    if b[1] == 0xFF:
        if len(b) != 2:
            raise ProtoError("bytes after 05 FF")
        return "failure", 2
    off = 2
    if b[1] == 2:
        if len(b) < 4 or b[2] != 1:
            raise ProtoError("no sub-negotiation status: %r" % b[:8])
        off = 4
    r = b[off:]
    if len(r) < 4 or r[0] != 5 or r[2] != 0:
        raise ProtoError("no final reply: %r" % r[:12])
    try:
        _, _, nxt = parse_addr_v5(r, 3)
    except Exception:
        raise ProtoError("truncated reply address: %r" % r[:24])
    if len(r) < nxt:
        raise ProtoError("truncated reply")
    if r[1] == 0:
        return "success", off + nxt
    if len(r) != nxt:
        raise ProtoError("%d bytes after the failure reply" % (len(r) - nxt))
    return "failure", off + nxt


def parse_socks4_stream(b):
    if len(b) < 8 or b[0] != 0 or b[1] not in (90, 91, 92, 93):
        raise ProtoError("no socks4 reply: %r" % b[:10])
    if b[1] == 90:
        return "success", 8
    if len(b) != 8:
        raise ProtoError("%d bytes after the failure reply" % (len(b) - 8))
    return "failure", 8


# ----------------------------------------------------------------------------- scenario
async def one(out, env, proto, outcome, host, port, uid, extra=None):
    """proto: http https socks5 socks5auth socks4a quic ; returns nothing, reports into out"""
    out.case()
    P = env["ports"]
    t0 = now()
    lport = {"http": P["http"], "https": P["https"], "socks5": P["socks"], "socks5auth": P["socksauth"], "socks4a": P["socks"], "socks4": P["socks"], "quic": P["C.http"]}[proto]
    tls = client_ssl() if proto == "https" else None
    payload = keystream(env["seed"], uid, "c2s", 3000)
    try:
        c = await open_conn("127.0.0.1", lport, tls=tls)
    except Exception as e:
        out.inconclusive += 1
        return
    authed = False
    try:
        if proto in ("http", "https", "quic"):
            hs = extra.get("raw") if extra and extra.get("raw") else http_connect_bytes(host, port, (extra or {}).get("headers", ()))
            c.write(hs)
        elif proto in ("socks5", "socks5auth"):
            methods = (extra or {}).get("methods", [0, 2] if proto == "socks5auth" else [0])
            c.write(bytes([5, len(methods)] + methods))
            await c.drain()
            if proto == "socks5auth" and 2 in methods:
                u, p = (extra or {}).get("cred", (USER, PASS))
                u, p = u.encode(), p.encode()
                c.write(bytes([1, len(u)]) + u + bytes([len(p)]) + p)
                authed = True
            cmd = (extra or {}).get("cmd", 1)
            c.write(bytes([5, cmd, 0]) + addr_v5(host, port))
        else:
            cmd = (extra or {}).get("cmd", 1)
            c.write(bytes([4, cmd]) + struct.pack(">H", port) + b"\0\0\0\x01" + b"me\0" + host.encode() + b"\0")
        if outcome in ("upstream-closeafter", "upstream-resetafter") and proto != "socks5auth":
            c.write(payload[:500])   # payload pipelined in the same breath as the request
        await c.drain()
        t_sent = now()
        expect_success = outcome in ("ok", "delay", "upstream-closeafter", "upstream-resetafter")
        buf = b""
        end = None
        if expect_success:
            # read the reply, then prove the tunnel with an echo and finish
            deadline = now() + 8
            kind = None
            while now() < deadline:
                try:
                    b = await c.read_some(65536, timeout=max(0.05, deadline - now()))
                except asyncio.TimeoutError:
                    break
                if not b:
                    end = "eof"
                    break
                buf += b
                try:
                    kind, used = parse_http_stream(buf) if proto in ("http", "https", "quic") else parse_socks5_stream(buf, authed) if proto.startswith("socks5") else parse_socks4_stream(buf)
                    break
                except ProtoError:
                    continue
            t_reply = now()
            if kind != "success" and outcome == "upstream-resetafter":
                # the reset may overtake the upstream's reply (a reset discards what the proxy has not read yet): then the proxy
                # never saw the grant and one failure reply is the truthful answer. Judge it as a failure outcome below.
                expect_success = False
            elif kind != "success":
                out.violation("upstream established but the client is not told so (%s, %s)" % (proto, outcome), {"proto": proto, "outcome": outcome, "received": buf[:120].hex(), "end": end})
                return
        if expect_success:
            # success must not precede the upstream's own establishment
            up_t = env["first_upstream_event"](host, port)
            if port == env["direct_port"]:
                # a direct origin: the kernel completes the TCP handshake by itself and the harness only learns of it when its
                # accept callback runs, which may be after the client already read the reply. That time stamp is an upper bound
                # of the establishment, so only existence is judged here (the echo below proves the tunnel); the ordering is
                # judged on the scripted upstreams, whose own "success sent" event is exact.
                for _ in range(40):
                    if up_t is not None:
                        break
                    await asyncio.sleep(0.05)
                    up_t = env["first_upstream_event"](host, port)
                if up_t is not None:
                    up_t = min(up_t, t_reply)
            if up_t is None or up_t > t_reply:
                out.violation("client told 'established' before the upstream path was (%s, %s)" % (proto, outcome),
                              {"proto": proto, "outcome": outcome, "reply_at_s": round(t_reply - t0, 3), "upstream_established_at_s": None if up_t is None else round(up_t - t0, 3)})
                return
            if outcome in ("upstream-closeafter", "upstream-resetafter"):
                # the upstream granted the tunnel and hung up (or was reset): success is truthful, the tunnel then just ends. The
                # upstream sent nothing after its reply, so every further byte the client gets is the proxy's own: a second reply
                rest = buf[used:]
                end2 = "timeout"
                deadline = now() + B_CLOSE + 2
                while now() < deadline:
                    try:
                        b = await c.read_some(65536, timeout=max(0.05, deadline - now()))
                    except asyncio.TimeoutError:
                        break
                    except (ConnectionError, OSError):
                        end2 = "rst"
                        break
                    if not b:
                        end2 = "eof"
                        break
                    rest += b
                if rest:
                    out.violation("a second reply follows the success reply on the same connection (%s, %s)" % (proto, outcome), {"proto": proto, "outcome": outcome, "after_success_hex": rest[:120].hex(), "end": end2})
                elif end2 == "timeout":
                    out.violation("connection not closed after the upstream went away (%s, %s)" % (proto, outcome), {"proto": proto, "outcome": outcome})
                out.nontrivial((proto, outcome, "success-then-" + end2))
                return
            c.buf = buf[used:] + c.buf
            c.write(payload)
            await c.drain()
            echoed = await c.read_exact(len(payload), timeout=8)
            if echoed != payload:
                out.violation("bytes after the success reply are not the tunnel's (second reply injected?) (%s)" % proto, {"got": echoed[:60].hex()})
            out.nontrivial((proto, outcome, "success"))
            return
        # ---- failure expected: collect everything until EOF
        deadline = now() + B_CLOSE + 5
        while now() < deadline:
            try:
                b = await c.read_some(65536, timeout=max(0.05, deadline - now()))
            except asyncio.TimeoutError:
                end = "timeout"
                break
            except (ConnectionError, OSError):
                end = "rst"
                break
            if not b:
                end = "eof"
                break
            buf += b
        t_end = now()
        who = {"proto": proto, "outcome": outcome, "target": "%s:%d" % (host, port), "received_hex": buf[:160].hex(), "received_len": len(buf), "end": end, "extra": {k: (v if not isinstance(v, bytes) else v.hex()) for k, v in (extra or {}).items()}}
        try:
            kind, used = parse_http_stream(buf) if proto in ("http", "https", "quic") else parse_socks5_stream(buf, authed) if proto.startswith("socks5") else parse_socks4_stream(buf)
        except ProtoError as e:
            cls = "no reply at all" if len(buf) == 0 else str(e).split(":")[0]
            cls = "".join(ch if not ch.isdigit() else "#" for ch in cls)
            out.violation("failure outcome without one complete well-formed failure reply: %s/%s: %s" % (proto, outcome, cls), dict(who, parser=str(e)))
            return
        if kind == "success":
            out.violation("client told 'established' although no upstream path exists (%s, %s)" % (proto, outcome), who)
            return
        if end == "timeout":
            out.violation("connection not closed after the failure reply (%s, %s)" % (proto, outcome), who)
            return
        out.nontrivial((proto, outcome, "failure"))
        out.sample({"proto": proto, "outcome": outcome, "reply_hex": buf[:80].hex(), "closed_after_s": round(t_end - t_sent, 3)})
    except ProtoError as e:
        out.violation("reply stream malformed (%s, %s)" % (proto, outcome), {"error": str(e)})
    except (ConnectionError, OSError, asyncio.TimeoutError) as e:
        out.violation("client connection failed unexpectedly (%s, %s): %s" % (proto, outcome, type(e).__name__), {"error": repr(e)})
    finally:
        c.close()


async def main(args):
    out = Out("C06", "c06", "listener protocol {http, https, socks5, socks5+auth, socks4a, CONNECT-over-QUIC} x outcome {reachable, delayed upstream success, closed port, upstream proxy refuses / garbage / closes before or after its reply / partial reply, explicit deny, no rule, feature not carried (UDP via balancer), unsupported command (BIND, cmd 9, GET, bad Proxy-Protocol, datagram channel on a TCP listener), failed authentication, no acceptable method} x upstream kind {direct, http, socks5, socks4}; the complete client byte stream until EOF is parsed strictly and joined with upstream events. distinct = distinct (protocol, outcome, result)")
    rng = random.Random(args.seed)
    wd = workdir("c06")
    fakes = await FakeUpstreams().start()
    origin_accepts = []

    async def origin_h(r, w, o, info):
        origin_accepts.append((now(), info["local"][1]))
        await echo_handler(r, w, o, info)
    origin = await TcpOrigin(origin_h, host="127.0.0.1").start()
    closed_port = free_port()
    ports = {k: free_port() for k in ("http", "https", "socks", "socksauth", "quic", "api", "C.http", "C.api")}
    # routing by target port
    R = {"direct": origin.port, "closed": closed_port, "fh": 1001, "fs5": 1002, "fs4": 1003, "deny": 1004, "norule": 1005, "lb": 1006, "fh6": 1007}
    listeners = [
        {"name": "http", "bind": "127.0.0.1:%d" % ports["http"]},
        {"name": "https", "type": "http", "bind": "127.0.0.1:%d" % ports["https"], "tls": tls_server()},
        {"name": "socks", "bind": "127.0.0.1:%d" % ports["socks"]},
        {"name": "socksauth", "type": "socks", "bind": "127.0.0.1:%d" % ports["socksauth"], "auth": {"required": True, "users": [{"username": USER, "password": PASS}]}},
        {"name": "quic", "bind": "127.0.0.1:%d" % ports["quic"], "tls": tls_server()},
    ]
    connectors = [
        {"name": "direct"},
        {"name": "fh", "type": "http", "server": "127.0.0.1", "port": fakes.ports["http"]},
        {"name": "fh6", "type": "http", "server": "::1", "port": fakes.ports["http6"]},
        {"name": "fs5", "type": "socks", "server": "127.0.0.1", "port": fakes.ports["socks5"]},
        {"name": "fs4", "type": "socks", "server": "127.0.0.1", "port": fakes.ports["socks4"], "version": 4},
        {"name": "lb", "type": "loadbalance", "connectors": ["direct"], "algo": "rr"},
    ]
    rules = [
        {"filter": "request.target.port == %d" % R["deny"], "target": "deny"},
        {"filter": "request.target.port == %d || request.target.port == %d" % (R["direct"], R["closed"]), "target": "direct"},
        {"filter": "request.target.port == %d" % R["fh"], "target": "fh"},
        {"filter": "request.target.port == %d" % R["fh6"], "target": "fh6"},
        {"filter": "request.target.port == %d" % R["fs5"], "target": "fs5"},
        {"filter": "request.target.port == %d" % R["fs4"], "target": "fs4"},
        {"filter": "request.target.port == %d || request.feature == \"UdpForward\"" % R["lb"], "target": "lb"},
    ]
    A = Proxy(args.bin, base_cfg(listeners, connectors, rules, metrics_port=ports["api"]), "A", wd)
    C = Proxy(args.bin, base_cfg([{"name": "http", "bind": "127.0.0.1:%d" % ports["C.http"]}],
                                 [{"name": "q", "type": "quic", "server": "localhost", "port": ports["quic"], "tls": tls_client(), "bind": "127.0.0.1:0"}],
                                 [{"target": "q"}], metrics_port=ports["C.api"]), "C", wd)

    def first_upstream_event(host, port):
        if port == R["direct"]:
            ts = [t for (t, p) in origin_accepts if p == origin.port]
            return min(ts) if ts else None
        proto = {R["fh"]: "http", R["fh6"]: "http", R["fs5"]: "socks5", R["fs4"]: "socks4"}.get(port)
        ts = [t for (t, pr, h, what) in fakes.events if pr == proto and h == host and what == "success-sent"]
        return min(ts) if ts else None
    env = {"ports": ports, "seed": args.seed, "first_upstream_event": first_upstream_event, "direct_port": R["direct"]}
    try:
        await A.start()
        await C.start()
        protos = ["http", "https", "socks5", "socks5auth", "socks4a", "quic"]
        jobs = []
        uid = [args.seed * 100000]

        def add(proto, outcome, host, port, extra=None):
            uid[0] += 1
            jobs.append((proto, outcome, host, port, uid[0], extra))
        reps = 3 if args.thorough else 1
        for _ in range(reps):
            for proto in protos:
                add(proto, "ok", "127.0.0.1", R["direct"])
                add(proto, "closed-port", "127.0.0.1", R["closed"])
                add(proto, "deny", "deny.test", R["deny"])
                add(proto, "no-rule", "norule.test", R["norule"])
                add(proto, "ok", "ok.fh6x%d.test" % uid[0], R["fh6"])          # upstream reached over IPv6
                add(proto, "upstream-refuse", "refuse.fh6x%d.test" % uid[0], R["fh6"])
                for up, pt in (("fh", R["fh"]), ("fs5", R["fs5"]), ("fs4", R["fs4"])):
                    for beh in BEHAVIOURS:
                        tag = "%s.%s%d.test" % (beh, up, uid[0])
                        add(proto, beh if beh in ("ok", "delay") else "upstream-%s" % beh, tag, pt)
            # unsupported commands / features / authentication
            for cmd in (2, 9, 0):
                add("socks5", "unsupported-cmd-%d" % cmd, "127.0.0.1", R["direct"], {"cmd": cmd})
                add("socks4a", "unsupported-cmd-%d" % cmd, "x.test", R["direct"], {"cmd": cmd})
            add("socks5", "udp-via-balancer", "0.0.0.0", 0, {"cmd": 3})
            add("socks5auth", "bad-password", "127.0.0.1", R["direct"], {"cred": (USER, "wrong")})
            add("socks5auth", "bad-user", "127.0.0.1", R["direct"], {"cred": ("mallory", PASS)})
            add("socks5auth", "no-acceptable-method", "127.0.0.1", R["direct"], {"methods": [0]})
            add("socks5", "no-acceptable-method", "127.0.0.1", R["direct"], {"methods": [0x80, 0x81]})
            for proto in ("http", "https", "quic"):
                add(proto, "method-GET", "127.0.0.1", R["direct"], {"raw": b"GET / HTTP/1.1\r\nHost: x\r\n\r\n"})
                add(proto, "bad-proxy-protocol", "127.0.0.1", R["direct"], {"headers": [("Proxy-Protocol", "sctp")]})
                add(proto, "udp-via-balancer", "127.0.0.1", R["lb"], {"headers": [("Proxy-Protocol", "udp")]})
            for proto in ("http", "https"):
                add(proto, "datagram-channel-on-tcp-listener", "127.0.0.1", R["direct"], {"headers": [("Proxy-Protocol", "udp"), ("Proxy-Channel", "quic-datagrams")]})
        rng.shuffle(jobs)
        width = 12
        for i in range(0, len(jobs), width):
            await asyncio.gather(*[one(out, env, *j) for j in jobs[i:i + width]])
            for p in (A, C):
                if not p.alive():
                    out.violation("proxy process died", {"proxy": p.name, "rc": p.exit_status(), "stderr": p.stderr_tail(800)})
                    raise SystemExit
        out.setx("upstream_events", len(fakes.events))
        out.setx("origin_accepts", len(origin_accepts))
    except SystemExit:
        pass
    finally:
        await fakes.stop()
        await origin.stop()
        A.cleanup()
        C.cleanup()
    out.finish()


if __name__ == "__main__":
    run_main(main)
