"""C16 — every connection is accounted for exactly once with a truthful record.
Harness ground truth per connection (keyed by the client socket's local address = the record's `source`) is
joined with /api/live (sampled while connections are held), the final /api/history and every access-log line
(after forced rotations).  Oracle: distinct ids, exactly-once log line, at most one history entry and exactly the
newest `history_size` ended ones newest-first, listed live exactly while it exists, truthful listener / source /
target / connector, lifecycle grammar with exactly one terminal state, byte counters = payload bytes moved."""
import asyncio
import json
import os
import random
import re
import socket
import struct

from .lib import (Out, Proxy, TcpOrigin, UdpEcho, addr_v5, base_cfg, client_ssl, echo_handler, free_port, http_connect, http_connect_bytes, keystream, now,
                  open_conn, run_main, socks4_connect, socks5_connect, tls_server, udp_endpoint, workdir)

GRAMMAR = re.compile(r"^ClientConnected( ClientRequested( ServerConnecting( Connected( (ClientShutdown|ServerShutdown)){0,2})?)?)? (Terminated|ErrorOccured)$")


async def population(out, rng, seed, P, oport, closed, uport, n, truth, io_name, hold_evt):
    """runs n mixed connections; fills truth[src_port] = dict(...)"""
    kinds = ["ok", "ok", "ok", "ok-early", "ok-early", "deny", "refused", "abort-before", "abort-during", "abort-after", "garbage", "tls-fail", "udp", "ok-tls", "ok-socks4", "ok-rev", "ok-upearly", "ok-upearly", "ok-backpressure", "ok-lb", "refused-lb", "ok-v6", "udp-unsupported"]

    async def one(i):
        kind = rng.choice(kinds)
        uid = seed * 100000 + i
        rec = {"kind": kind, "uid": uid, "t_open": now(), "io": io_name}
        try:
            if kind in ("ok", "ok-early", "ok-tls", "ok-socks4", "ok-rev", "abort-after"):
                n_c2s = rng.choice([1, 100, 5000, 70000])
                payload = keystream(seed, uid, "c2s", n_c2s)
                early = payload[:rng.choice([1, min(n_c2s, 50), n_c2s])] if kind == "ok-early" else b""
                if kind == "ok-tls":
                    c = await open_conn("127.0.0.1", P["https"], tls=client_ssl())
                    st, _ = await http_connect(c, "127.0.0.1", oport, early)
                    rec.update(listener="https", ok=st == 200)
                elif kind == "ok-socks4":
                    c = await open_conn("127.0.0.1", P["socks"])
                    rep = await socks4_connect(c, "127.0.0.1", oport, b"id", early)
                    rec.update(listener="socks", ok=rep == 90)
                elif kind == "ok-rev":
                    c = await open_conn("127.0.0.1", P["rev"])
                    rec.update(listener="rev", ok=True)
                elif rng.random() < 0.5:
                    c = await open_conn("127.0.0.1", P["http"])
                    st, _ = await http_connect(c, "127.0.0.1", oport, early)
                    rec.update(listener="http", ok=st == 200)
                else:
                    c = await open_conn("127.0.0.1", P["socks"])
                    rep, _, _ = await socks5_connect(c, "127.0.0.1", oport, early=early)
                    rec.update(listener="socks", ok=rep == 0)
                rec.update(src=c.local[1], target="127.0.0.1:%d" % oport, connector="direct", outcome="success" if kind != "abort-after" else "abort-after")
                truth[rec["src"]] = rec
                c.write(payload[len(early):])
                await c.drain()
                got = await c.read_exact(n_c2s, timeout=15)
                rec.update(c2s=n_c2s, s2c=len(got))
                if hold_evt is not None and rng.random() < 0.4:
                    rec["held"] = True
                    await hold_evt.wait()
                if kind == "abort-after":
                    c.abort()
                else:
                    c.eof()
                    try:
                        await c.read_all(timeout=5)
                    except Exception:
                        pass
                    c.close()
            elif kind == "ok-upearly":
                # through a chained-proxy connector whose upstream sends its success reply and the first payload (a banner)
                # in one segment: that payload reaches the client out of the handshake read buffer, and must be counted
                n_c2s = rng.choice([1, 100, 5000])
                n_banner = rng.choice([1, 35, 3000])
                via = rng.choice(["hup", "sup"])
                tport = {"hup": 1010, "sup": 1011}[via] + 2 * [1, 35, 3000].index(n_banner)
                payload = keystream(seed, uid, "c2s", n_c2s)
                if rng.random() < 0.5:
                    c = await open_conn("127.0.0.1", P["http"])
                    st, _ = await http_connect(c, "127.0.0.1", tport)
                    rec.update(listener="http", ok=st == 200)
                else:
                    c = await open_conn("127.0.0.1", P["socks"])
                    rep, _, _ = await socks5_connect(c, "127.0.0.1", tport)
                    rec.update(listener="socks", ok=rep == 0)
                rec.update(src=c.local[1], target="127.0.0.1:%d" % tport, connector=via, outcome="success")
                truth[rec["src"]] = rec
                banner = await c.read_exact(n_banner, timeout=15)
                c.write(payload)
                await c.drain()
                got = await c.read_exact(n_c2s, timeout=15)
                rec.update(c2s=n_c2s, s2c=len(banner) + len(got))
                c.eof()
                try:
                    await c.read_all(timeout=5)
                except Exception:
                    pass
                c.close()
            elif kind == "ok-backpressure":
                # megabytes towards a peer that is not reading yet: the proxy meets short writes; counters must still equal the payload
                n_c2s = 12 << 20
                payload = keystream(seed, uid, "c2s", n_c2s)
                c = await open_conn("127.0.0.1", P["http"] if rng.random() < 0.5 else P["rev"], rcvbuf=16384)
                lname = "http" if c.w.get_extra_info("peername")[1] == P["http"] else "rev"
                if lname == "http":
                    st, _ = await http_connect(c, "127.0.0.1", oport)
                    rec.update(ok=st == 200)
                else:
                    rec.update(ok=True)
                rec.update(listener=lname, src=c.local[1], target="127.0.0.1:%d" % oport, connector="direct", outcome="success")
                truth[rec["src"]] = rec
                c.w.transport.pause_reading()      # the echo piles up, then the origin stops reading, then the proxy's buffers fill
                c.write(payload)
                await asyncio.sleep(1.0)
                c.w.transport.resume_reading()
                await c.drain()
                got = await c.read_exact(n_c2s, timeout=30)
                rec.update(c2s=n_c2s, s2c=len(got))
                c.eof()
                try:
                    await c.read_all(timeout=5)
                except Exception:
                    pass
                c.close()
            elif kind in ("ok-lb", "refused-lb"):
                # through a balancer nested in a balancer: the record must name the member that carried (or tried) the connection
                port = oport if kind == "ok-lb" else closed
                c = await open_conn("127.0.0.1", P["httplb"])
                st, _ = await http_connect(c, "127.0.0.1", port)
                rec.update(listener="httplb", src=c.local[1], target="127.0.0.1:%d" % port, connector="direct")
                truth[rec["src"]] = rec
                if kind == "ok-lb":
                    rec.update(ok=st == 200, outcome="success")
                    payload = keystream(seed, uid, "c2s", 100)
                    c.write(payload)
                    await c.drain()
                    got = await c.read_exact(100, timeout=15)
                    rec.update(c2s=100, s2c=len(got))
                    c.eof()
                    try:
                        await c.read_all(timeout=5)
                    except Exception:
                        pass
                else:
                    rec.update(outcome="error")
                    try:
                        await c.read_all(timeout=3)
                    except Exception:
                        pass
                c.close()
            elif kind == "ok-v6":
                # a client on IPv6 loopback: the record must name [::1]:port, not some IPv4 look-alike
                c = await open_conn("::1", P["http6"])
                st, _ = await http_connect(c, "127.0.0.1", oport)
                rec.update(listener="http6", ok=st == 200, src=c.local[1], source="[::1]:%d" % c.local[1], target="127.0.0.1:%d" % oport, connector="direct", outcome="success")
                truth[rec["src"]] = rec
                payload = keystream(seed, uid, "c2s", 100)
                c.write(payload)
                await c.drain()
                got = await c.read_exact(100, timeout=15)
                rec.update(c2s=100, s2c=len(got))
                c.eof()
                try:
                    await c.read_all(timeout=5)
                except Exception:
                    pass
                c.close()
            elif kind in ("deny", "refused"):
                port = 1004 if kind == "deny" else closed
                if rng.random() < 0.5:
                    c = await open_conn("127.0.0.1", P["http"])
                    st, _ = await http_connect(c, "127.0.0.1", port)
                    rec.update(listener="http")
                else:
                    c = await open_conn("127.0.0.1", P["socks"])
                    rep, _, _ = await socks5_connect(c, "127.0.0.1", port)
                    rec.update(listener="socks")
                rec.update(src=c.local[1], target="127.0.0.1:%d" % port, connector=None if kind == "deny" else "direct", outcome="error")
                truth[rec["src"]] = rec
                try:
                    await c.read_all(timeout=3)
                except Exception:
                    pass
                c.close()
            elif kind == "abort-before":
                c = await open_conn("127.0.0.1", rng.choice([P["http"], P["socks"]]))
                rec.update(src=c.local[1], outcome="handshake-failed", listener=None)
                truth[rec["src"]] = rec
                c.close()
            elif kind == "abort-during":
                lp = rng.choice(["http", "socks"])
                c = await open_conn("127.0.0.1", P[lp])
                hs = http_connect_bytes("127.0.0.1", oport) if lp == "http" else bytes([5, 1, 0, 5, 1, 0]) + addr_v5("127.0.0.1", oport)
                c.write(hs[:rng.randrange(1, len(hs) - 1)])
                await c.drain()
                rec.update(src=c.local[1], outcome="handshake-failed", listener=lp)
                truth[rec["src"]] = rec
                await asyncio.sleep(0.02)
                c.close()
            elif kind == "garbage":
                lp = rng.choice(["http", "socks"])
                c = await open_conn("127.0.0.1", P[lp])
                c.write(bytes(rng.randrange(256) for _ in range(40)) + b"\r\n\r\n")
                await c.drain()
                rec.update(src=c.local[1], outcome="handshake-failed", listener=lp)
                truth[rec["src"]] = rec
                try:
                    await c.read_all(timeout=3)
                except Exception:
                    pass
                c.close()
            elif kind == "tls-fail":
                c = await open_conn("127.0.0.1", P["https"])
                c.write(b"this is not a TLS client hello\r\n\r\n")
                await c.drain()
                rec.update(src=c.local[1], outcome="no-record", listener="https")
                truth[rec["src"]] = rec
                try:
                    await c.read_all(timeout=3)
                except Exception:
                    pass
                c.close()
            elif kind == "udp-unsupported":
                # a UDP association asked of a listener whose rule selects an upstream that can not carry UDP (a balancer): refused,
                # and accounted for like every other refused request
                from .lib import http_connect_bytes, http_reply
                c = await open_conn("127.0.0.1", P["httplb"])
                rec.update(listener="httplb", src=c.local[1], target="0.0.0.0:0", outcome="error")
                truth[rec["src"]] = rec
                c.write(http_connect_bytes("0.0.0.0", 0, [("Proxy-Protocol", "udp")]))
                await c.drain()
                try:
                    st, _ = await asyncio.wait_for(http_reply(c), 5)
                    rec.update(status=st)
                    await c.read_all(timeout=3)
                except Exception:
                    pass
                c.close()
            elif kind == "udp":
                c = await open_conn("127.0.0.1", P["socks"])
                rep, bh, bp = await socks5_connect(c, "0.0.0.0", 0, cmd=3)
                rec.update(src=c.local[1], listener="socks", target="0.0.0.0:0", connector="direct", outcome="udp", ok=rep == 0)
                truth[rec["src"]] = rec
                loop = asyncio.get_running_loop()
                u = socket.socket(socket.AF_INET, socket.SOCK_DGRAM)
                u.bind(("127.0.0.1", free_port()))
                u.setblocking(False)
                for k in range(3):
                    await loop.sock_sendto(u, b"\0\0\0" + addr_v5("127.0.0.1", uport) + b"d%d" % k, ("127.0.0.1", bp))
                    try:
                        await asyncio.wait_for(loop.sock_recv(u, 2000), 1.0)
                    except asyncio.TimeoutError:
                        pass
                u.close()
                c.close()
        except Exception as e:
            rec["harness_error"] = repr(e)[:160]
        rec["t_close"] = now()
    await asyncio.gather(*[one(i) for i in range(n)])


def port_of(src):
    return int(src.rsplit(":", 1)[1])


async def gc_window_scenario(out, args, wd, oport):
    """connections that end while the collector is busy (here: blocked on an access-log sink that is not being read for a while)
    must still be logged and archived exactly once when it goes on"""
    import fcntl
    fifo = os.path.join(wd, "slow-access.log")
    os.mkfifo(fifo)
    rfd = os.open(fifo, os.O_RDONLY | os.O_NONBLOCK)
    try:
        fcntl.fcntl(rfd, 1031, 4096)  # F_SETPIPE_SZ
    except OSError:
        pass
    P = {k: free_port() for k in ("rev", "api")}
    G = Proxy(args.bin, base_cfg([{"name": "rev", "type": "reverse", "bind": "127.0.0.1:%d" % P["rev"], "target": "127.0.0.1:%d" % oport}], [{"name": "direct"}], [{"target": "direct"}],
                                 metrics_port=P["api"], history=2000, access_log={"path": fifo, "format": "json"}), "G", wd)
    srcs = []
    try:
        await G.start()

        async def short():
            c = await open_conn("127.0.0.1", P["rev"])
            srcs.append(c.local[1])
            c.write(b"x")
            await c.drain()
            try:
                await c.read_exact(1, timeout=5)
            except Exception:
                pass
            c.close()
        for i in range(0, 400, 40):
            await asyncio.gather(*[short() for _ in range(40)])
        await asyncio.sleep(2.5)   # the collector is now blocked on the log queue with hundreds of ended connections in hand
        for i in range(0, 60, 20):
            await asyncio.gather(*[short() for _ in range(20)])
            await asyncio.sleep(0.4)
        # now read the log
        buf = b""
        t_end = now() + 9.0
        flushed = 0
        while now() < t_end:
            try:
                b = os.read(rfd, 1 << 20)
                if b:
                    buf += b
                    continue
            except BlockingIOError:
                pass
            if buf.count(b"\n") >= len(srcs):
                break
            if now() > t_end - 9.0 + 3.5 * (flushed + 1) and flushed < 2:
                # the log writer is buffered: only a rotation flushes its tail
                flushed += 1
                asyncio.ensure_future(G.api("POST", "/logrotate", b""))
            await asyncio.sleep(0.05)
        logged = {}
        for l in buf.split(b"\n"):
            if l.strip():
                try:
                    j = json.loads(l)
                    logged[port_of(j["source"])] = logged.get(port_of(j["source"]), 0) + 1
                except ValueError:
                    out.violation("access log line is not valid JSON", {"line": l[:120].decode("latin1")})
        hist = await G.api_json("/history", timeout=20)
        archived = {}
        for h in hist:
            archived[port_of(h["source"])] = archived.get(port_of(h["source"]), 0) + 1
        out.case(len(srcs))
        missing_log = [p for p in srcs if logged.get(p, 0) == 0]
        multi_log = [p for p in srcs if logged.get(p, 0) > 1]
        missing_hist = [p for p in srcs if archived.get(p, 0) == 0]
        out.nontrivial(("collector-busy", len(srcs), len(missing_log) == 0))
        out.setx("collector_busy_connections", len(srcs))
        if missing_log:
            out.violation("accepted connection has no access-log line (it ended while the collector was busy)", {"connections": len(srcs), "without_log_line": len(missing_log), "of_them_in_the_late_group": sum(1 for p in missing_log if p in srcs[400:])})
        if multi_log:
            out.violation("a connection is reported more than once in the access log", {"count": len(multi_log), "scenario": "collector busy"})
        if missing_hist:
            out.violation("ended connection is missing from /api/history although the history is larger than the run (it ended while the collector was busy)", {"connections": len(srcs), "missing": len(missing_hist)})
        if not G.alive():
            out.violation("proxy process died", {"rc": G.exit_status(), "stderr": G.stderr_tail(600)})
    finally:
        G.kill()
        os.close(rfd)


async def main(args):
    from . import lib as _lib
    _lib.UNIQUE_SRC = True   # records are joined with connections by source port
    out = Out("C16", "c16", "mixed populations (success over http/https/socks5/socks4/reverse with and without early data, denied, upstream refused, client abort before/during/after the handshake, garbage handshake, TLS handshake failure, UDP association) at 1..150 concurrency against proxies with history_size {0, 3, 1000} and both I/O modes, log rotation at random instants; harness ground truth joined with /api/live, /api/history and the access log. distinct = distinct (connection kind, listener, io mode, history size, payload class)")
    rng = random.Random(args.seed)
    origin = await TcpOrigin(echo_handler, host="127.0.0.1").start()
    utr, upr, uport = await udp_endpoint(lambda: UdpEcho())
    closed = free_port()
    wd = workdir("c16")

    def banner_for(port):
        return b"B" * [1, 35, 3000][((port - 1010) // 2) % 3]

    async def fake_http_upstream(r, w, o, info):
        head = await r.readuntil(b"\r\n\r\n")
        port = int(head.split(b" ")[1].rsplit(b":", 1)[1])
        w.write(b"HTTP/1.1 200 Connection established\r\n\r\n" + banner_for(port))  # reply and banner in ONE segment
        await w.drain()
        await echo_handler(r, w, o, info)

    async def fake_socks_upstream(r, w, o, info):
        g = await r.readexactly(2)
        await r.readexactly(g[1])
        w.write(b"\x05\x00")
        await w.drain()
        h = await r.readexactly(4)
        alen = {1: 4, 4: 16}.get(h[3]) or (await r.readexactly(1))[0]
        rest = await r.readexactly(alen + 2)
        port = struct.unpack(">H", rest[-2:])[0]
        w.write(b"\x05\x00\x00\x01\x00\x00\x00\x00\x00\x00" + banner_for(port))
        await w.drain()
        await echo_handler(r, w, o, info)
    hup = await TcpOrigin(fake_http_upstream, host="127.0.0.1").start()
    sup = await TcpOrigin(fake_socks_upstream, host="127.0.0.1").start()
    confs = [(1000, "splice", True), (3, "buffered", False), (0, "splice", True)]
    if args.thorough:
        confs += [(1000, "buffered", False), (3, "splice", True)]
    for hist, io_name, splice in confs:
        P = {k: free_port() for k in ("http", "https", "socks", "rev", "api", "httplb", "http6")}
        listeners = [
            {"name": "http", "bind": "127.0.0.1:%d" % P["http"]},
            {"name": "https", "type": "http", "bind": "127.0.0.1:%d" % P["https"], "tls": tls_server()},
            {"name": "socks", "bind": "127.0.0.1:%d" % P["socks"]},
            {"name": "rev", "type": "reverse", "bind": "127.0.0.1:%d" % P["rev"], "target": "127.0.0.1:%d" % origin.port},
            {"name": "httplb", "type": "http", "bind": "127.0.0.1:%d" % P["httplb"]},
            {"name": "http6", "type": "http", "bind": "[::1]:%d" % P["http6"]},
        ]
        rules = [{"filter": "request.listener == \"httplb\"", "target": "lb-outer"}, {"filter": "request.target.port == 1004", "target": "deny"},
                 {"filter": "request.target.port _: [1010, 1012, 1014]", "target": "hup"},
                 {"filter": "request.target.port _: [1011, 1013, 1015]", "target": "sup"}, {"target": "direct"}]
        connectors = [{"name": "direct"}, {"name": "hup", "type": "http", "server": "127.0.0.1", "port": hup.port},
                      {"name": "sup", "type": "socks", "server": "127.0.0.1", "port": sup.port},
                      {"name": "lb-inner", "type": "loadbalance", "connectors": ["direct"], "algo": "rr"},
                      {"name": "lb-outer", "type": "loadbalance", "connectors": ["lb-inner"], "algo": "rr"}]
        logname = "access-%d-%s.log" % (hist, io_name)
        # a SOCKS UDP association is only retired by its idle timer (the proxy does not watch the control connection):
        # keep that timer short so that such sessions end within the run
        cfg = base_cfg(listeners, connectors, rules, metrics_port=P["api"], history=hist, io={"bufferSize": 8192, "useSplice": splice}, timeouts={"idle": 600, "udp": 1},
                       access_log={"path": logname, "format": "json"})
        A = Proxy(args.bin, cfg, "A%d%s" % (hist, io_name), wd)
        truth = {}
        try:
            await A.start()
            n = (400 if args.thorough else 150) if hist == 1000 else 40
            hold = asyncio.Event()
            live_seen = {}

            async def sampler():
                # sample /api/live while connections are held
                for _ in range(6):
                    await asyncio.sleep(0.25)
                    try:
                        live = await A.api_json("/live", timeout=4)
                    except Exception:
                        continue
                    for e in live:
                        live_seen.setdefault(port_of(e["source"]), e)

            async def rotator():
                for k in range(2):
                    await asyncio.sleep(rng.uniform(0.1, 0.9))
                    try:
                        os.rename(os.path.join(wd, logname), os.path.join(wd, logname + ".%d" % k))
                        await A.api("POST", "/logrotate", b"")
                    except Exception:
                        pass
            pop = asyncio.ensure_future(population(out, rng, args.seed, P, origin.port, closed, uport, n, truth, io_name, hold))
            smp = asyncio.ensure_future(sampler())
            rot = asyncio.ensure_future(rotator())
            await smp
            held = [r for r in truth.values() if r.get("held")]
            for r in held:
                out.case()
                if r["src"] not in live_seen:
                    out.violation("open tunnel was never listed in /api/live while it was held", {"kind": r["kind"], "listener": r.get("listener")})
            hold.set()
            await pop
            await rot
            await asyncio.sleep(4.5)  # udp idle timer 1 s + 1 s tick + collector period 1 s
            # flush the access log: rotate twice, then read every piece
            for k in (7, 8):
                try:
                    os.rename(os.path.join(wd, logname), os.path.join(wd, logname + ".%d" % k))
                except OSError:
                    pass
                await A.api("POST", "/logrotate", b"")
                await asyncio.sleep(0.3)
            lines = []
            for f in sorted(os.listdir(wd)):
                if f.startswith(logname):
                    with open(os.path.join(wd, f), "rb") as fh:
                        for l in fh.read().split(b"\n"):
                            l = l.strip()
                            if l:
                                try:
                                    lines.append(json.loads(l))
                                except ValueError:
                                    out.violation("access log line is not valid JSON", {"line": l[:120].decode("latin1")})
            hist_list = await A.api_json("/history")
            live_after = await A.api_json("/live")
            # ---- ids
            ids = [l["id"] for l in lines]
            if len(ids) != len(set(ids)):
                dup = [i for i in set(ids) if ids.count(i) > 1][:3]
                out.violation("a connection is reported more than once in the access log", {"ids": dup, "history_size": hist})
            by_port = {}
            for l in lines:
                by_port.setdefault(port_of(l["source"]), []).append(l)
            # ---- per connection
            ended_order = []
            for src, r in truth.items():
                out.case()
                if "harness_error" in r and "src" not in r:
                    out.inconclusive += 1
                    continue
                recs = by_port.get(src, [])
                key = (r["kind"], r.get("listener"), io_name, hist, "L" if r.get("c2s", 0) > 8192 else "S")
                if r["outcome"] == "no-record":
                    if recs:
                        out.violation("a connection whose TLS handshake failed has an accounting record", {"record_states": [s["state"] for s in recs[0]["state"]]})
                    out.nontrivial(key)
                    continue
                if len(recs) != 1:
                    out.violation("accepted connection has %s access-log lines instead of exactly one" % ("no" if not recs else len(recs)), {"kind": r["kind"], "listener": r.get("listener"), "history_size": hist})
                    continue
                rec = recs[0]
                out.nontrivial(key)
                ended_order.append((rec["state"][-1]["time"], rec["id"]))
                states = [s["state"] for s in rec["state"]]
                times = [s["time"] for s in rec["state"]]
                w = {"kind": r["kind"], "listener": r.get("listener"), "states": states, "error": rec.get("error"), "io": io_name}
                if not GRAMMAR.match(" ".join(states)):
                    terminal = states[-1] in ("Terminated", "ErrorOccured")
                    out.violation("state sequence violates the connection lifecycle: %s" % ("no terminal state" if not terminal else "bad order / several terminal states"), w)
                if times != sorted(times):
                    out.violation("state timestamps decrease", w)
                if (states[-1] == "ErrorOccured") != bool(rec.get("error")):
                    out.violation("error text present iff the terminal state is an error is violated", w)
                want_src = r.get("source", "127.0.0.1:%d" % src)
                if rec.get("source") != want_src:
                    out.violation("record names another source address than the client's", dict(w, recorded=rec.get("source"), real=want_src))
                if r.get("listener") and rec["listener"] != r["listener"]:
                    out.violation("record names another listener than the one used", dict(w, recorded=rec["listener"]))
                if "target" in r and r["outcome"] in ("success", "abort-after", "error") and rec["target"] != r["target"]:
                    out.violation("record names another target than the one asked", dict(w, recorded=rec["target"], asked=r["target"]))
                if r["outcome"] in ("success", "abort-after", "udp") and rec.get("connector") != r["connector"]:
                    out.violation("record names another upstream than the one used", dict(w, recorded=rec.get("connector")))
                if r["outcome"] == "error" and states[-1] != "ErrorOccured":
                    out.violation("refused / failed request is not recorded as an error", w)
                if r["outcome"] == "success" and r.get("ok") and "c2s" in r:
                    if states[-1] != "Terminated":
                        out.violation("cleanly finished tunnel is not recorded as finished", w)
                    cb, sb = rec["client_stat"]["read_bytes"], rec["server_stat"]["read_bytes"]
                    if cb != r["c2s"] or sb != r["s2c"]:
                        out.violation("byte counters differ from the payload bytes relayed%s" % (" (early data)" if r["kind"] == "ok-early" else ""),
                                      dict(w, counted_c2s=cb, relayed_c2s=r["c2s"], counted_s2c=sb, relayed_s2c=r["s2c"]))
                    else:
                        out.count("byte_counters_checked")
                if src in live_seen and not r.get("held") and False:
                    pass
                out.sample({"kind": r["kind"], "listener": r.get("listener"), "states": states, "c2s": r.get("c2s"), "counted": rec["client_stat"]["read_bytes"]})
            # ---- live after everything ended
            for e in live_after:
                if port_of(e["source"]) in truth:
                    out.violation("connection still listed as live after it ended", {"listener": e["listener"], "states": [s["state"] for s in e["state"]]})
            # ---- history: bounded, newest first, exactly the most recently ended
            out.case()
            hid = [h["id"] for h in hist_list]
            if len(hid) != len(set(hid)):
                out.violation("a connection appears twice in the history", {"history_size": hist})
            want_len = min(hist, len(lines))
            if len(hist_list) != want_len:
                out.violation("history length differs from min(history_size, ended connections)", {"history_size": hist, "ended": len(lines), "history_len": len(hist_list)})
            else:
                log_ids_in_order = [l["id"] for l in lines]  # the collector writes the log in the order it retires records
                expect = list(reversed(log_ids_in_order))[:want_len]
                if sorted(hid) != sorted(expect):
                    out.violation("history does not hold the most recently ended connections", {"history_size": hist, "history_ids": hid[:10], "expected_ids": expect[:10]})
                elif hid != expect:
                    # order inside one collector batch is by drop order; only flag when the order disagrees with log order
                    out.violation("history is not newest-first", {"history_ids": hid[:10], "expected_ids": expect[:10]})
            out.nontrivial(("history", hist, io_name))
            out.setx("log_lines_%d_%s" % (hist, io_name), len(lines))
            if not A.alive():
                out.violation("proxy process died", {"rc": A.exit_status(), "stderr": A.stderr_tail(800)})
        finally:
            A.kill()
    await gc_window_scenario(out, args, wd, origin.port)
    import shutil
    shutil.rmtree(wd, ignore_errors=True)
    await origin.stop()
    await hup.stop()
    await sup.stop()
    utr.close()
    out.finish()


if __name__ == "__main__":
    run_main(main)
