"""Registry of properties -> monitor steps, and MANIFEST.json generation."""
import json
import os

VERIF = os.path.dirname(os.path.abspath(__file__))

COMMON_ASSUME = [
    "monitors observe executions only: paths, inputs and interleavings the workload did not drive are not covered",
    "rustc/cargo, tokio, the Linux loopback stack are trusted",
]


def inproc(name, lane="unw", timeout=(300, 2400), **kw):
    return dict(kind="inproc", name=name, lane=lane, timeout=timeout, **kw)


def e2e(name, timeout=(400, 3000), **kw):
    return dict(kind="e2e", name=name, lane="ship", timeout=timeout, **kw)


def miri(name, timeout=(600, 2400), **kw):
    return dict(kind="miri", name=name, timeout=timeout, **kw)


PROPS = {
    "C09": dict(
        title="parser accepts the documented grammar and precedence",
        level="exploration",
        technique="runtime differential oracle: README operator table -> expected trees vs. the real parser, exhaustive pairs/triples + random trees + filler injection",
        text="Runs the real milu parser (linked into the binary) on every operator spelling, every ordered pair and triple of binary operators in every tree shape, unary/postfix/ternary/if/let mixes, random trees to depth 6 printed with table-minimal parentheses and fully parenthesised, and with blank/comment filler at every token boundary; each parse is compared with the tree built directly from the stdlib constructors. Exhaustive for pairs and triples, sampled beyond.",
        note="trusted: the transcription of milu/readme.md's operator table in harness/inproc/c09.rs; milu's own Value equality",
        design_ref="DESIGN.md 3 C09",
        steps=[inproc("c09")],
        assumptions=COMMON_ASSUME + ["operator table transcribed by hand from milu/readme.md"],
    ),
}

PROPS["C08"] = dict(
    title="rule-language type soundness",
    level="exploration",
    technique="runtime monitor around the real checker+evaluator: checker-accepts => evaluation never panics / never type-errors / value has the checked type, plus differential against a reference interpreter",
    text="Loads each generated expression exactly as the rule/log/load-balancer loaders do (parse, type_of in the request environment) with the real milu linked in; if accepted, evaluates it under 7 request environments under catch_unwind and requires no panic, no type error, a value of the checked scalar type, and equality with a lazy reference interpreter where that defines a value or a dynamic error. Bounded-exhaustive over every operator/function x a 26-leaf set (incl. wrong arities, tuple indices, request.* fields) and a depth-2 slice; random typed trees to depth 4 and ill-typed mutants beyond; thorough adds the dev-profile (overflow-checking) build.",
    note="trusted: the harness reference type checker/interpreter (harness/inproc/c08.rs); error classification by message stem; composite (array/tuple) results are lazy and only judged when demanded",
    design_ref="DESIGN.md 3 C08",
    steps=[inproc("c08")],
    assumptions=COMMON_ASSUME + ["reference interpreter encodes the documented semantics (README table, config comments)"],
)

PROPS["C11"] = dict(
    title="fragmentation / reassembly exactness",
    level="exploration",
    technique="runtime monitor: real make_fragments -> permuted/duplicated/interleaved/adversarial feeds -> real reassemble, outputs compared byte-for-byte with the originals and with a reference reassembler; pending-state hook H2",
    text="Splits generated frames (real Frame and a raw-bytes Fragmentable) with the real make_fragments over an (size x MTU) grid, checks the fragment contract, feeds every permutation (<=6 fragments) and sampled permutations with duplicates and 2-4 interleaved frames to the real reassemble and requires each original exactly once and nothing else; adversarial header feeds are compared with a reference reassembler; timer expiry, id reuse after completion and id wrap-around are driven with real short timeouts and judged only when measured times are clearly on the intended side.",
    note="trusted: harness reference reassembler; real-time sleeps for expiry (skipped => inconclusive if the measured time is ambiguous)",
    design_ref="DESIGN.md 3 C11",
    steps=[inproc("c11"), miri("c11", thorough_only=True)],
    assumptions=COMMON_ASSUME,
)
PROPS["C12"] = dict(
    title="stream decoders insensitive to segmentation",
    level="exploration",
    technique="runtime differential monitor: real decoders on scripted AsyncRead with chosen cut sets vs. the unsegmented run and the generator's intended message; truncation sweep",
    text="Drives the real HTTP head, SOCKS4/4a/5 request (incl. negotiation and user/pass), SOCKS reply and RPFM stream-frame decoders, and the whole CONNECT handshake followed by the real relay, over a scripted stream whose segment boundaries are chosen: all 2^(n-1) cut sets for messages up to 14 bytes, every single cut, sampled pairs, one-byte-at-a-time and random sets beyond, each with and without Pending between segments and with trailing payload; requires identical parsed message, identical left-over bytes and identical bytes written back. Every strict prefix must be rejected (or end cleanly for the frame reader). End-to-end step: the same handshakes reach the shipped binary over sockets in two segments separated by real silence (0.3 s to 6 s, thorough up to 31 s), on the listener side and in the replies of fake upstream proxies; reply, tunnel and pipelined payload must be those of the unsegmented run.",
    note="trusted: message generators' rendering of the intended message; an HTTP head missing only its final LF is rejected like every other strict prefix since fix 6fe5f32",
    design_ref="DESIGN.md 3 C12",
    steps=[inproc("c12", timeout=(300, 3600)), e2e("c12"), miri("c12", thorough_only=True)],
    assumptions=COMMON_ASSUME,
)
PROPS["C05"] = dict(
    title="no remote input can crash or wedge the proxy",
    level="exploration",
    technique="panic/abort sensors (catch_unwind lane, process supervisor) around every decoder and the live process under hostile generated traffic, with liveness probes; ASan and Miri lanes in thorough",
    text="In-process: every decoder (HTTP, SOCKS4/5, SOCKS-UDP, RPFM buffer and stream frames, fragment reassembly incl. the exhaustive (total,seq,len) header grid and hostile MTUs, h11c_connect against hostile upstream replies, h11c_handshake against hostile requests) is run on mutated-valid, truncated, oversized and random inputs under catch_unwind with a poll budget; any panic is a violation because the shipped profile aborts. End-to-end: hostile clients and upstreams against the shipped binary under a supervisor (see e2e steps).",
    note="trusted: mutation operators reach the interesting inputs only by sampling; memory exhaustion is out of scope of the property",
    design_ref="DESIGN.md 3 C05",
    steps=[inproc("c05"), e2e("c05", thorough_lanes=["asan"], timeout=(400, 3000))],
    assumptions=COMMON_ASSUME,
)

PROPS["C01"] = dict(
    title="TCP tunnel byte-stream fidelity",
    level="exploration",
    technique="end-to-end runtime monitor: position-keyed keystream equality at the client and origin sockets of the shipped binary, every listener x connector x io-mode pairing, hostile shapes and back-pressure",
    text="Starts real proxy chains (C -quic-> A -{direct,http,https,socks5,socks4,socks+tls,quic,loadbalance}-> B -> harness origins) for several ioParams (splice on/off, bufferSize 1..1MiB) and drives tunnels through every listener kind (http, https, socks5, socks5+auth, socks4, socks4a, socks+tls, reverse, CONNECT-over-QUIC) x every connector kind with drawn shapes: sizes 0..multi-MB per direction, who speaks first, early data glued to the handshake, segmented handshakes, write sizes/pauses, slow and stalled readers (back-pressure), IPv4/domain/IPv6 targets, 4..32 tunnels concurrently. Every byte received at either end is compared with the keystream of that connection and direction; a mismatch is classified (truncated, extra, lost, duplicated, foreign connection).",
    note="trusted: kernel loopback, python asyncio/ssl client and origin; TPROXY listeners are not driven (need netfilter rules)",
    design_ref="DESIGN.md 3 C01",
    steps=[e2e("c01")],
    assumptions=COMMON_ASSUME + ["the harness client and origin are correct senders/receivers of their keystreams"],
)
PROPS["C04"] = dict(
    title="end-of-stream and abort relayed faithfully, same in both I/O modes",
    level="fault_enumeration",
    technique="end-to-end close-event scenario grid (FIN/close/RST by either side, offsets, in-flight data) with an absolute oracle on socket events + history states, and a splice-vs-buffered differential of the logical observations",
    text="Seven close scenarios (client FIN first / origin FIN first / simultaneous / client RST / origin RST / client close with MBs in flight / FIN at offset 0) x listener x connector pairings are run against a splice and a buffered proxy chain; oracle: the peer sees EOF only after all bytes sent before it and within 3 s, the opposite direction still delivers and ends, both sides observe the end after an abort, /api/live no longer lists the tunnel and /api/history shows ClientShutdown/ServerShutdown in the order of the closes and one terminal state; the per-scenario observation vectors of the two I/O modes must be equal.",
    note="trusted: kernel loopback; 'promptly' restated as 3 s with a 15 s watchdog; python TLS clients cannot half-close so FIN-first-by-client scenarios run on plain listeners only; later additions (back-pressure before a FIN, trickle beyond the idle period, abort with a silent peer, an upstream whose reply and first payload share a segment, tunnels aborted with every buffer full followed by fresh tunnels on the same proxies) are listed in DESIGN.md 3 C04",
    design_ref="DESIGN.md 3 C04",
    steps=[e2e("c04")],
    assumptions=COMMON_ASSUME,
)

PROPS["C02"] = dict(
    title="routing: first match wins, default deny, nothing leaks",
    level="exploration",
    technique="runtime differential monitor: reference first-match router with harness-computed filter truth vs. the real rules engine + process_request observed through recording connectors; cidr_match vs bitwise containment; the same oracle end to end over real listeners (IPv4 and IPv6), /api/rules, /api/history and origin-side observation of refused requests",
    text="Builds the real GlobalState (rules::from_config + set_rules, recording connectors with random feature sets, a real load balancer) and runs generated requests through the real process_request. Rule lists of length 0..12 with duplicates, deny and filterless rules anywhere and filters drawn from a template family (==/!= on every request attribute, port ==/>=/_:, =~ literals, cidr_match, &&/||/! written fully parenthesised or with table-minimal parentheses, and filters that error at run time) whose true/false/error value the harness computes itself. Oracle: connect() runs on exactly the connector the reference router names, on none at all when it refuses (deny, no match, missing feature), refusals are recorded as errors; cidr_match is compared with an independent bitwise containment on a dense IPv4/IPv6 grid.",
    note="trusted: the harness truth functions for the filter templates; only canonical CIDRs are generated (the cidr crate rejects others at parse time)",
    design_ref="DESIGN.md 3 C02",
    steps=[inproc("c02"), e2e("c02")],
    assumptions=COMMON_ASSUME,
)
PROPS["C03"] = dict(
    title="destination integrity through every re-encoding",
    level="exploration",
    technique="runtime monitor composing the real inbound decoders and outbound encoders with independent strict reference parsers of the outgoing protocol; 2-hop check through the real peer decoder; end to end: destinations named by raw clients compared with the targets two chained real proxies recorded, per connector kind",
    text="For destinations with host bytes of length 0..70000 in classes plain/colon/space/CR/LF/NUL/control/non-UTF-8/multibyte/IP-literal and edge ports, the harness writes the request in each inbound protocol (HTTP CONNECT, SOCKS5, SOCKS4a, SOCKS5-UDP header, RPFM attribute), lets the real decoder produce the target the rules see, feeds that target to every real outbound encoder (CONNECT via h11c_connect, SOCKS5, SOCKS4, SOCKS5-UDP, RPFM; full and partial writes) and parses the emitted bytes with strict reference parsers. Verdict: refused, or the next hop reads exactly the client's destination with no extra protocol fields; where the next hop is another redproxy, its real decoder must read it too.",
    note="trusted: the harness reference parsers (RFC 1928 / SOCKS4a / RFC 7230 request head / RPFM TLV); IP literals compare as addresses",
    design_ref="DESIGN.md 3 C03",
    steps=[inproc("c03"), e2e("c03")],
    assumptions=COMMON_ASSUME,
)
PROPS["C17"] = dict(
    title="load-balancer selection laws",
    level="exploration",
    technique="runtime monitor on the real LoadBalanceConnector with recording members: window/histogram, group-by-key and membership checks under sequential and 16-task concurrent selection",
    text="The balancer is built from YAML through from_value/init/verify for n=1..8 members. Round robin: every window of n sequential selections hits each member once and 16 concurrent tasks on the multi-thread runtime share k*n selections exactly evenly; hashBy over 8 string-typed key expressions: requests with equal key value (incl. equal strings from different target representations) go to one member, sequentially and from 16 tasks running concurrently on the worker threads; random: only members, every member hit in 1000*n draws; the connector recorded in the context equals the member whose connect ran; nested balancers stay inside their members.",
    note="trusted: harness computation of the key strings; false-alarm probability of the random coverage test < e^-1000",
    design_ref="DESIGN.md 3 C17",
    steps=[inproc("c17")],
    assumptions=COMMON_ASSUME,
)
PROPS["C15"] = dict(
    title="rule hot-reload is atomic and all-or-nothing",
    level="exploration",
    technique="history checker: single-register linearizability of (replacement, request decision) histories with versioned rule lists whose torn evaluations produce a decision no list gives; all-or-nothing checks around every rejected replacement",
    text="In-process: one task replaces the 14-rule list through the real set_rules at full speed, mixing in invalid lists (syntax error, type error, unknown field, unknown target at a random position, in rules bound to an upstream or to deny), while 16 tasks run the real process_request on the multi-thread runtime; every decision must equal the decision of a version that was current during the request's interval (last completed before it began, or overlapping it). Sequentially, every rejected replacement must leave GET /rules and the next decision unchanged, a successful one must decide the very next request, and read-then-post must change nothing. End-to-end: the same through POST /api/rules on the shipped binary.",
    note="trusted: monotonic clock ordering of call/return stamps; version decisions repeat every 8 versions",
    design_ref="DESIGN.md 3 C15",
    steps=[inproc("c15"), e2e("c15")],
    assumptions=COMMON_ASSUME,
)

PROPS["C06"] = dict(
    title="'established' iff upstream is; failures get one complete reply",
    level="fault_enumeration",
    technique="end-to-end monitor: strict per-protocol reply parser over the complete client byte stream until EOF, joined on one clock with upstream-side events from harness origins and scripted fake upstream proxies",
    text="For every listener protocol (http, https, socks5, socks5+auth, socks4a, CONNECT-over-QUIC) x outcome (reachable, upstream success delayed, closed port, upstream proxy refuses / answers garbage / closes before or after its reply / sends half a reply, explicit deny, no rule, feature not carried by the selected upstream, unsupported commands and headers, failed authentication, no acceptable method) x upstream kind (direct, http, socks5, socks4) the raw client records everything until EOF; oracle: success reply only when the upstream recorded its own establishment earlier on the same clock, then the tunnel echoes; otherwise exactly one well-formed failure reply (HTTP: head + exactly Content-Length body bytes) followed by EOF within 3 s; never both.",
    note="trusted: harness fake upstreams and reply grammars (SOCKS5 method selection and RFC1929 status are accepted before the final reply); black-holed upstreams are not driven (no connect timeout to bound the wait)",
    design_ref="DESIGN.md 3 C06",
    steps=[e2e("c06")],
    assumptions=COMMON_ASSUME,
)
PROPS["C13"] = dict(
    title="idle tunnels closed after the configured timeout, and only then",
    level="exploration",
    technique="end-to-end monitor: /api/live idle_timeout wiring per listener kind + wall-clock close-window oracle with small timeouts (never early, never later than T+1s+slack), trickle and T=0 patterns",
    text="Four proxies (timeouts absent, 0/0, idle 2/udp 4, idle 4/udp 2) x listener kinds (http, socks, reverse tcp, reverse udp, socks5 udp-associate, UDP over CONNECT with and without Udp-Bind-Source, CONNECT-over-QUIC) x patterns (silent, trickle slower than the period for 3T, burst then silence): the idle_timeout reported by /api/live must equal the configured value (the only claim about the 600 s default), a silent tunnel must be closed within [T-0.3, T+1+3] s of the last echoed byte, a trickling tunnel must stay open, T=0 must still be open after 8 s, and the history record must end with the 'idle timeout' error.",
    note="trusted: wall clock on a loaded machine (3 s slack; API unresponsive => inconclusive); no finite run shows 'never early' for 600 s",
    design_ref="DESIGN.md 3 C13",
    steps=[e2e("c13")],
    assumptions=COMMON_ASSUME,
)

PROPS["C10"] = dict(
    title="UDP datagram fidelity and session isolation",
    level="exploration",
    technique="end-to-end monitor: per-datagram unique ids + keystream; exactly-once / right-session / right-destination / right-label multiset checker over what origins and clients received",
    text="UDP paths {SOCKS5 UDP-associate, reverse UDP listener, CONNECT with inline RPFM frames spoken by the harness} x upstream {direct, http hop with inline frames, socks5 hop, QUIC datagrams, QUIC inline} through a two-proxy chain; payload sizes 22..65000 (multi-fragment over QUIC), IPv4 and domain destinations, first and later datagrams of a session in stop-and-wait mode (loss judged), pipelined bursts over concurrent sessions (safety judged), and a client that disappears with a reply in flight and re-binds the same port (bounced reply => receive error on the session socket). Every datagram seen by an origin or a client must be one that was sent, with identical payload, at the addressed origin / owning session, at most once, and replies must be labelled with the replying origin's address.",
    note="trusted: loopback does not lose paced datagrams (loss is only judged with one datagram in flight per session and large socket buffers); IPv6 destinations need an IPv6 association: they are driven only through listeners on ::1 with the direct connector (size-limit block: round trips of 65506 bytes over IPv4 and 65526 over IPv6); TPROXY UDP needs netfilter rules",
    design_ref="DESIGN.md 3 C10",
    steps=[e2e("c10")],
    assumptions=COMMON_ASSUME,
)

PROPS["C16"] = dict(
    title="every connection accounted exactly once, truthfully",
    level="exploration",
    technique="offline history checker: harness ground truth per connection joined with /api/live samples, the final /api/history and every access-log line (forced rotations): exactly-once, lifecycle grammar, field truthfulness, byte-counter conservation, bounded newest-first history",
    text="Mixed populations (successful tunnels over http/https/socks5/socks4/reverse with and without early data, denied, upstream refused, client abort before/during/after the handshake, garbage handshake, TLS handshake failure, UDP association, UDP asked of an upstream that cannot carry it) run at up to 150 concurrent connections against proxies with history_size 1000/3/0 and both I/O modes while the log is rotated at random instants. Keyed by the client's source port, every accepted connection must have exactly one access-log line with a distinct id, the listener/target/upstream it used, a state sequence matching the lifecycle grammar with exactly one terminal state (error text iff error), non-decreasing timestamps, byte counters equal to the payload moved (incl. early data); held tunnels must be listed live and none after they ended; the history must be exactly the newest min(history_size, ended) records, newest first; TLS-handshake failures must leave no record.",
    note="trusted: the collector writes log lines in retirement order (used as the 'end order' for the history check); SOCKS UDP associations are retired by their idle timer, which the run keeps at 1 s",
    design_ref="DESIGN.md 3 C16",
    steps=[e2e("c16")],
    assumptions=COMMON_ASSUME,
)

PROPS["C14"] = dict(
    title="management API never blocks the data plane",
    level="fault_enumeration",
    technique="end-to-end stall-point grid with concurrent API pollers and fresh-connection probes; latency bound calibrated on an unstalled baseline of the same run; bounded-recovery phase",
    text="After measuring API and fresh-tunnel latencies without stallers, the monitor places clients stopped after k bytes of a valid handshake (k across the whole handshake) for http, socks5, socks5+auth, socks4, the same inside TLS, half-done TLS handshakes, a QUIC handshake whose client packets stop after the first one (dropping UDP relay), tunnels whose reader stopped while the origin blasts data, more clients than worker threads stalled inside over-long unterminated lines (4 K .. 200 K of a request line, header line, SOCKS4 user id or host name), plus dozens of idle connections. With the stallers in place, pollers on every API endpoint (status, live, history, rules GET/POST, metrics, logrotate), one fresh tunnel per listener kind every 50 ms, connection churn and the first QUIC connection of a new peer run concurrently; every call must complete within max(2 s, 20 x baseline p99). After the stallers go away everything must be back to normal.",
    note="trusted: wall-clock bound on a loaded machine (baseline p99 > 1 s => inconclusive); interleavings are sampled by the scheduler, reach comes from the stall-point grid",
    design_ref="DESIGN.md 3 C14",
    steps=[e2e("c14")],
    assumptions=COMMON_ASSUME,
)

PROPS["C07"] = dict(
    title="configured peer authentication is enforced on every path",
    level="exploration",
    technique="end-to-end monitor: 'was anything routed?' observer at the origin vs. reference credential / certificate validity; argv log of the external command; verdict-cache history checker",
    text="SOCKS: every offered-method set and order from {0,1,2,0x80,0xFF,...} x continuation (follow the selection, skip the sub-negotiation, force credentials) x credential class (listed user, wrong/empty password, wrong/empty user, command-accepted user, 255-byte, placeholder-bearing, non-UTF-8, NUL, case-changed) and SOCKS4 ids against a listener that requires credentials (user list + external command + 2 s verdict cache): nothing may reach the origin for a peer without valid credentials, valid ones must pass, the command's logged argv must be the template with the placeholders replaced literally, and every served cache verdict must equal the table's verdict at a command run for the identical (user, password) within the cache lifetime. TLS: listener {http, socks, quic} x client-cert policy {absent, optional, required} x presented {none, valid, foreign CA}; connectors {http, socks, quic} x insecure x CA {right, foreign, absent} x upstream certificate {valid, foreign CA, wrong name}: without insecure a tunnel exists only when the certificate chains to the configured CA and matches the server name.",
    note="trusted: rustls/webpki chain building, python ssl client, the fixture auth command; QUIC clients are real redproxy quic connectors",
    design_ref="DESIGN.md 3 C07",
    steps=[e2e("c07")],
    assumptions=COMMON_ASSUME,
)

PROPS["C19"] = dict(
    title="service resumes after an upstream outage",
    level="fault_enumeration",
    technique="end-to-end fault injection: kill/stop/restart supervisor + probe streams; bounded-recovery and clean-failure checker on one clock; continuous healthy side traffic",
    text="For every upstream kind (origin via direct, upstream proxy via http, via socks5, via the shared QUIC connection, a load balancer over two) x fault (SIGKILL+restart, SIGTERM+restart, SIGSTOP..SIGCONT, SIGSTOP+SIGKILL+restart) x phase (idle, tunnel open across the outage, request caught during connect) x outage length, each with its own upstream process behind one proxy: once the harness has verified that the upstream accepts connections again, probes routed to it must succeed within 3 attempts (5 for QUIC) and 15 s (50 s for QUIC, whose dead-peer detection is its 30 s idle timeout); a tunnel that was open across a hard outage must end on the client side and be recorded as an error; a request caught by the outage must complete or fail; a probe stream on an unrelated upstream (10 Hz) must never fail or exceed 2 s. A round-robin balancer whose two members go away and return in turn (dozens of failed member connects over its life) must serve again within 3 attempts after every return.",
    note="trusted: liveness restated as the bounded (attempts, seconds) above; silent drops (SIGSTOP) are judged on recovery only; 'every phase' is three sampled phases plus, for http and socks5 upstreams, death after every prefix of the upstream's handshake reply (FIN and RST)",
    design_ref="DESIGN.md 3 C19",
    steps=[e2e("c19", timeout=(600, 3000))],
    assumptions=COMMON_ASSUME,
)

PROPS["C18"] = dict(
    title="bad configuration is an error, never a crash; accepted configuration runs",
    level="exploration",
    technique="runtime monitor around the shipped binary: structural YAML/JSON mutation of valid configurations judged by `--test` (exit status / death by signal), accepted mutants started and probed under a supervisor (alive, answers, CPU bounded), arbitrary rule lists posted to the API",
    text="Two valid seed documents (an equivalent of the shipped config.yaml with fixture certificates, and a small harness config) are mutated: every field deleted, retyped to 17 replacement values (null, strings, integers incl. 2^64, float, bool, list, map, 70 kB string, NUL, bad addresses) or duplicated, plus targeted mutants for listener/connector type and name, duplicate names, balancer member graphs (empty, missing, self, 2- and 3-cycles, diamond), rule filters (syntax, type, arity, tuple index, run-time errors, nesting 10..100000 levels of five shapes), access-log formats (bad, non-string, failing at load, failing only at request time), TLS material (missing, empty, garbage, key without PEM block, swapped). Each is given to `redproxy-rs --test`: exit 0 or exit 1 with a message, never a signal or a hang; accepted ones are started on fresh ports and sent one well-formed request per listener: the process must stay alive, answer or close within 5 s and not spin. 25 rule-list bodies (wrong shapes, ill-typed filters, huge and deeply nested) are posted to /api/rules: an HTTP response and a live process each time.",
    note="trusted: the harness seed equivalent of config.yaml (tproxy listeners left out: they need privileges); only single mutations are applied",
    design_ref="DESIGN.md 3 C18",
    steps=[e2e("c18")],
    assumptions=COMMON_ASSUME,
)

NOT_YET = {}


def manifest():
    props = [json.loads(l) for l in open(os.path.join(VERIF, "properties.jsonl"))]
    checks = []
    na = []
    for p in props:
        pid = p["id"]
        if pid in PROPS:
            d = PROPS[pid]
            checks.append({
                "property_id": pid,
                "quick_cmd": "./check %s quick" % pid,
                "thorough_cmd": "./check %s thorough" % pid,
                "evidence_file": "/verif/evidence/%s.json" % pid,
                "replay_cmd_template": "./check %s --replay {path}" % pid,
                "engine": "rtmon",
                "level_claimed": {"category": d["level"], "text": d["text"], "design_ref": d.get("design_ref", "DESIGN.md 3")},
                "level_note": d["note"],
                "technique": d["technique"],
            })
        else:
            na.append({"property_id": pid, "reason": NOT_YET.get(pid, "monitor not built yet in this round; not claimed (see DESIGN.md status table)")})
    return {
        "version": 1,
        "setup_cmd": "./check --setup",
        "hooks": {
            "guard": "mengjiangproject_redproxy_rs_verif",
            "enable": "RUSTFLAGS=\"--cfg mengjiangproject_redproxy_rs_verif\" REDPROXY_VERIF_DIR=/verif/harness cargo build --release --offline --target-dir /verif/target/ship   (run in /repo; ./check does this for every lane it needs)",
            "baseline_off_cmd": "cd /repo && (cargo nextest run --workspace --no-fail-fast --test-threads 8 --offline || cargo test --workspace --no-fail-fast --offline)",
            "source_commits": ["d74f65e", "b0ebc58"],
            "add_only": True,
        },
        "engines": [{
            "name": "rtmon",
            "path": "/verif/check",
            "serves_properties": sorted(PROPS.keys()),
            "kind_free_text": "runtime monitoring: the real code linked with in-process monitors (harness/inproc, via hook H1) and the shipped binary driven end-to-end on loopback by python actors (e2e/), offline history checkers, Miri and ASan lanes",
        }],
        "checks": checks,
        "not_applicable": na,
        "notes": "All verdicts come from oracles observing executions of the real code. known_findings.json lists recorded genuine defects by exact monitor signature; fixed defects are listed there as 'fixed' and suppress nothing.",
    }
